/-
C10, part: the aggregated views of simaple/simulate/component/view.py and simaple/simulate/view.py.
`BuffParentView.aggregate` is `Stat.sum` (the GENERATED definition of simaple/core/base.py) of the component
buffs that are switched on; the other parent views return the list of component views in installation order.
The total buff is therefore always a well-formed stat block: the monoid sum of the switched-on buffs, the empty
block when none is on, independent of the order in which components were installed.
-/
import Simaple.Props.C11

namespace Simaple.Props.C10_Views
open Simaple.Gen

/-- `BuffParentView.aggregate`: `Stat.sum` of the representations that are not `None` -/
def buffAggregate (reps : List (Option Stat)) : Stat := Stat.sum (reps.filterMap id)

/-- `ValidityParentView` / `RunningParentView` / `KeydownParentView` / `InformationParentView`: identity -/
def listAggregate {α : Type} (reps : List α) : List α := reps

/-- the total buff is the monoid sum (repeated `+` from the empty block) of the switched-on buffs -/
theorem buff_is_monoid_sum (reps : List (Option Stat)) :
    buffAggregate reps = (reps.filterMap id).foldl Stat.add Stat.zero :=
  Simaple.Props.C11.stat_sum_eq_foldl _

/-- no buff switched on: the empty block -/
theorem buff_none_on (reps : List (Option Stat)) (h : ∀ r ∈ reps, r = none) : buffAggregate reps = Stat.zero := by
  have : reps.filterMap id = [] := by
    rw [List.filterMap_eq_nil_iff]; intro a ha; rw [h a ha]; rfl
  rw [buffAggregate, this]; exact Simaple.Props.C11.stat_sum_nil

/-- the order in which components are installed does not matter for the total buff -/
theorem buff_order_irrelevant (reps reps' : List (Option Stat)) (h : reps.Perm reps') :
    buffAggregate reps = buffAggregate reps' :=
  Simaple.Props.C11.stat_sum_perm (List.Perm.filterMap id h)

/-- a switched-off component contributes nothing -/
theorem buff_ignores_off (reps : List (Option Stat)) : buffAggregate (none :: reps) = buffAggregate reps := rfl

/-- a switched-on component contributes its block once -/
theorem buff_adds_on (b : Stat) (reps : List (Option Stat)) :
    buffAggregate (reps ++ [some b]) = (buffAggregate reps).add b := by
  simp only [buffAggregate, List.filterMap_append, List.filterMap_cons, id, List.filterMap_nil]
  exact Simaple.Props.C11.stat_sum_snoc _ b

/-- the list views list every component exactly once, in installation order -/
theorem list_views_are_the_component_views {α : Type} (reps : List α) : listAggregate reps = reps := rfl

end Simaple.Props.C10_Views
