/-
C06 — the clock equals the time asked for; commands advance it as documented.
Model: Simaple/Model/Engine.lean.  L4: `play` over a router whose only clock-writing dispatcher is the
timer (`hRouter`: each router call adds the payload of a `*.elapse` action to the clock and nothing else
touches it — observed on the real dispatchers by the correspondence check).  L5: commands.
-/
import Simaple.Proofs.Engine
import Mathlib.Tactic.Ring
import Mathlib.Tactic.Linarith
import Mathlib.Algebra.Order.Field.Rat

namespace Simaple.Props.C06
open Simaple.Engine

theorem not_elapse_emitted (m t : String) : m ++ ".emitted." ++ t ≠ "elapse" := by
  intro h
  have hl := congrArg String.length h
  simp [String.length_append] at hl
  have h1 : ".emitted.".length = 9 := by decide
  have h2 : "elapse".length = 6 := by decide
  omega

theorem not_elapse_done (m t : String) : m ++ ".done." ++ t ≠ "elapse" := by
  intro h
  have hl := congrArg String.length h
  simp [String.length_append] at hl
  have h1 : ".done.".length = 6 := by decide
  have h2 : "elapse".length = 6 := by decide
  have hm : m = "" := String.length_eq_zero_iff.mp (by omega)
  have ht : t = "" := String.length_eq_zero_iff.mp (by omega)
  subst hm ht
  revert h; decide

theorem elapseOf_emitted (ev : Event) : elapseOf (emittedOf ev) = 0 := by
  unfold elapseOf emittedOf
  split
  · rename_i h; exact absurd h.2 (not_elapse_emitted _ _)
  · rfl

theorem elapseOf_done (ev : Event) : elapseOf (doneOf ev) = 0 := by
  unfold elapseOf doneOf
  split
  · rename_i h; exact absurd h.2 (not_elapse_done _ _)
  · rfl

section L4
variable {σ : Type}
variable (R : Action → σ → σ × List Event)
variable (getPending : σ → List (Action × Action))
variable (setPending : σ → List (Action × Action) → σ)
variable (clock : σ → Rat)

def queueElapse (q : List Action) : Rat := (q.map elapseOf).sum

theorem runQueue_clock (hRouter : ∀ a s, clock (R a s).1 = clock s + elapseOf a) (q : List Action) :
    ∀ s, clock (runQueue R s q).1 = clock s + queueElapse q := by
  induction q with
  | nil => intro s; simp [runQueue, queueElapse]
  | cons a q ih =>
    intro s
    simp only [runQueue, queueElapse, List.map_cons, List.sum_cons] at *
    rw [ih, hRouter]; ring

/-- relayed callbacks never advance the clock: a play advances it by exactly the elapse time of its
    own action -/
theorem play_clock (hRouter : ∀ a s, clock (R a s).1 = clock s + elapseOf a)
    (hSet : ∀ s p, clock (setPending s p) = clock s)
    (hPend : ∀ s, ∀ p ∈ getPending s, elapseOf p.1 = 0 ∧ elapseOf p.2 = 0) (s : σ) (a : Action) :
    clock (play R getPending setPending s a).1 = clock s + elapseOf a := by
  unfold play
  simp only [hSet]
  rw [runQueue_clock R clock hRouter]
  congr 1
  have : ∀ (pend : List (Action × Action)), (∀ p ∈ pend, elapseOf p.1 = 0 ∧ elapseOf p.2 = 0) →
      ∀ q, queueElapse (pend.foldl (fun q p => [p.1] ++ q ++ [p.2]) q) = queueElapse q := by
    intro pend
    induction pend with
    | nil => intro _ q; rfl
    | cons p ps ih =>
      intro h q
      rw [List.foldl_cons, ih (fun x hx => h x (List.mem_cons_of_mem _ hx))]
      have hp := h p (List.mem_cons_self ..)
      simp [queueElapse, hp.1, hp.2]
  have h := this (getPending s) (hPend s) [a]
  simpa [buildQueue, queueElapse] using h

/-- pending callbacks are always derived from events, so they never are `*.elapse` actions -/
theorem callbacks_no_elapse (evs : List Event) : ∀ p ∈ callbacksOf evs, elapseOf p.1 = 0 ∧ elapseOf p.2 = 0 := by
  intro p hp
  simp only [callbacksOf, List.mem_map] at hp
  obtain ⟨e, _, rfl⟩ := hp
  exact ⟨elapseOf_emitted e, elapseOf_done e⟩

end L4

section L5
variable {σ τ : Type}
variable {P : Action → σ → σ × List Event} {save : σ → τ} {load : τ → σ} {clock : σ → Rat}
variable {view : σ → String → String}
variable (hash : OpLog τ → String) (t0 : τ)

/-- starting from clock `c0`, the clock of every playlog is the clock of the previous one plus the
    elapse time of its action -/
def ClockChain (c0 : Rat) : List (PlayLog τ) → Prop
  | [] => True
  | pl :: rest => pl.clock = c0 + elapseOf pl.action ∧ ClockChain pl.clock rest

def lastClock (c0 : Rat) (pls : List (PlayLog τ)) : Rat :=
  match pls.getLast? with | some pl => pl.clock | none => c0

theorem lastClock_cons (c0 : Rat) (a : PlayLog τ) (as : List (PlayLog τ)) :
    lastClock c0 (a :: as) = lastClock a.clock as := by
  cases as with
  | nil => simp [lastClock]
  | cons x xs =>
    simp only [lastClock, List.getLast?_cons_cons]
    cases h : (x :: xs).getLast? with
    | none => simp [List.getLast?_eq_none_iff] at h
    | some pl => rfl

theorem clockChain_append (A B : List (PlayLog τ)) : ∀ c0, ClockChain c0 A → ClockChain (lastClock c0 A) B →
    ClockChain c0 (A ++ B) := by
  induction A with
  | nil => intro c0 _ hB; simpa [lastClock] using hB
  | cons a as ih =>
    intro c0 hA hB
    rw [lastClock_cons] at hB
    exact ⟨hA.1, ih _ hA.2 hB⟩

theorem lastClock_append (A B : List (PlayLog τ)) (c0 : Rat) :
    lastClock c0 (A ++ B) = lastClock (lastClock c0 A) B := by
  unfold lastClock
  cases hB : B.getLast? with
  | none =>
    have : B = [] := List.getLast?_eq_none_iff.mp hB
    subst this; simp
  | some pl => simp [List.getLast?_append, hB]

/-- the clock at the end of a chain is the start plus the sum of the elapse times -/
theorem clockChain_sum (A : List (PlayLog τ)) : ∀ c0, ClockChain c0 A →
    lastClock c0 A = c0 + (A.map (fun pl => elapseOf pl.action)).sum := by
  induction A with
  | nil => intro c0 _; simp [lastClock]
  | cons a as ih =>
    intro c0 h
    have := ih a.clock h.2
    rw [lastClock_cons, this, h.1]; simp only [List.map_cons, List.sum_cons]; ring

/-- the playlogs one command produces, started from a store showing clock `clock s`, continue the chain,
    and the store it leaves shows the last recorded clock -/
theorem execOp_chain (hPlay : ∀ a s, clock (P a s).1 = clock s + elapseOf a) (s : σ) (b : List Event) (c : Command) :
    ClockChain (clock s) (execOp P save clock s b c).1 ∧
    clock (execOp P save clock s b c).2 = lastClock (clock s) (execOp P save clock s b c).1 := by
  unfold execOp
  cases c.kind with
  | cast =>
    by_cases hd : firstDelay (P ⟨c.name, "use", .none⟩ s).2 = 0
    · simp [hd, ClockChain, mkPL, hPlay, lastClock]
    · simp [hd, ClockChain, mkPL, hPlay, lastClock]
  | use => simp [ClockChain, mkPL, hPlay, lastClock]
  | elapse => simp [ClockChain, mkPL, hPlay, lastClock]
  | keydownstop => simp [ClockChain, mkPL, hPlay, lastClock]
  | resolve => simp [ClockChain, mkPL, hPlay, lastClock]
  | console => simp [ClockChain, lastClock]

/-- per command: ELAPSE t advances the clock by t; CAST by the first positive delay its use announces
    (0 if rejected or delay-free); RESOLVE by the pending delay of the named skill; USE, KEYDOWNSTOP and
    debug lines by nothing -/
theorem per_command (hPlay : ∀ a s, clock (P a s).1 = clock s + elapseOf a) (s : σ) (b : List Event) (c : Command) :
    clock (execOp P save clock s b c).2 = clock s +
      (match c.kind with
       | .elapse => c.time
       | .cast => firstDelay (P ⟨c.name, "use", .none⟩ s).2
       | .resolve => firstDelay (b.filter (fun e => e.name == c.name))
       | .use => 0 | .keydownstop => 0 | .console => 0) := by
  unfold execOp
  cases c.kind with
  | cast =>
    by_cases hd : firstDelay (P ⟨c.name, "use", .none⟩ s).2 = 0
    · simp [hd, hPlay, elapseOf]
    · simp [hd, hPlay, elapseOf]
  | use => simp [hPlay, elapseOf]
  | elapse => simp [hPlay, elapseOf]
  | keydownstop => simp [hPlay, elapseOf]
  | resolve => simp [hPlay, elapseOf]
  | console => simp

/-- the delay a CAST or RESOLVE waits for is never negative -/
theorem firstDelay_nonneg (evs : List Event) : 0 ≤ firstDelay evs := by
  unfold firstDelay
  split
  · rename_i e he
    have := List.find?_some he
    simp only [Bool.and_eq_true] at this
    cases ht : e.time with
    | none => simp [ht] at this
    | some t => simp [ht] at this; simp; linarith [this.2]
  · exact le_refl _

/-- engine invariant for the clock -/
def CInv (e : Engine σ τ) : Prop :=
  ClockChain 0 ((allPL e.logs).drop 1) ∧ (∃ s, e.cached = some s) ∧
  clock (curStore load t0 e) = lastClock 0 ((allPL e.logs).drop 1) ∧ 1 ≤ (allPL e.logs).length

theorem exec_cinv (hPlay : ∀ a s, clock (P a s).1 = clock s + elapseOf a) (e : Engine σ τ) (c : Command)
    (h : CInv (load := load) (clock := clock) t0 e) :
    CInv (load := load) (clock := clock) t0 (exec P save load clock view hash t0 e c) := by
  obtain ⟨h1, ⟨s, hs⟩, h3, h4⟩ := h
  have hcur : curStore load t0 e = s := by simp [curStore, hs]
  have hch := execOp_chain (save := save) hPlay s e.buffered c
  have hall : ∀ (pls : List (PlayLog τ)) (d : Option String) (pv : String),
      (allPL (e.logs ++ [⟨c, pls, d, pv⟩])).drop 1 = (allPL e.logs).drop 1 ++ pls := by
    intro pls d pv
    have : allPL (e.logs ++ [⟨c, pls, d, pv⟩]) = allPL e.logs ++ pls := by simp [allPL]
    rw [this, List.drop_append_of_le_length h4]
  unfold exec
  rw [hcur]
  by_cases hc : c.kind = .console
  · simp only [hc, if_true]
    refine ⟨?_, ⟨s, rfl⟩, ?_, ?_⟩
    · rw [hall]; simpa using h1
    · rw [hall]; simp only [curStore, List.append_nil]; rw [← h3, hcur]
    · simp [allPL] at h4 ⊢; omega
  · simp only [hc, if_false]
    rw [hcur] at h3
    refine ⟨?_, ⟨_, rfl⟩, ?_, ?_⟩
    · rw [hall]; exact clockChain_append _ _ 0 h1 (by rw [← h3]; exact hch.1)
    · rw [hall, lastClock_append, ← h3]; simp only [curStore]; exact hch.2
    · simp [allPL] at h4 ⊢; omega

/-- **C06**: in every history produced by executing commands from a fresh engine, the clock recorded
    after every action equals the clock before it plus the elapse time of that action, and the clock
    the engine shows is the sum of all elapse times dispatched so far. -/
theorem clock_is_sum (hPlay : ∀ a s, clock (P a s).1 = clock s + elapseOf a) (st : σ) (hst : clock st = 0)
    (cs : List Command) :
    let e := execAll P save load clock view hash t0 (initEngine save st) cs
    ClockChain 0 ((allPL e.logs).drop 1) ∧
    clock (curStore load t0 e) = (((allPL e.logs).drop 1).map (fun pl => elapseOf pl.action)).sum := by
  intro e
  have hinit : CInv (load := load) (clock := clock) t0 (initEngine save st : Engine σ τ) := by
    refine ⟨by simp [initEngine, initLog, allPL, ClockChain], ⟨st, rfl⟩, ?_, by simp [initEngine, initLog, allPL]⟩
    simp [initEngine, initLog, allPL, curStore, hst, lastClock]
  have : ∀ (cs : List Command) (e0 : Engine σ τ), CInv (load := load) (clock := clock) t0 e0 →
      CInv (load := load) (clock := clock) t0 (execAll P save load clock view hash t0 e0 cs) := by
    intro cs
    induction cs with
    | nil => intro e0 h; exact h
    | cons c cs ih => intro e0 h; exact ih _ (exec_cinv hash t0 hPlay e0 c h)
  obtain ⟨h1, _, h3, _⟩ := this cs _ hinit
  refine ⟨h1, ?_⟩
  rw [h3, clockChain_sum _ 0 h1]; simp [e]

/-- the clock never decreases when every requested elapse time is non-negative -/
theorem clock_monotone (c0 : Rat) (pls : List (PlayLog τ)) (h : ClockChain c0 pls)
    (hnn : ∀ pl ∈ pls, 0 ≤ elapseOf pl.action) : ∀ pl ∈ pls, c0 ≤ pl.clock := by
  induction pls generalizing c0 with
  | nil => intro pl hpl; cases hpl
  | cons a as ih =>
    intro pl hpl
    have ha : c0 ≤ a.clock := by rw [h.1]; linarith [hnn a (List.mem_cons_self ..)]
    rcases List.mem_cons.mp hpl with rfl | hmem
    · exact ha
    · exact le_trans ha (ih a.clock h.2 (fun x hx => hnn x (List.mem_cons_of_mem _ hx)) pl hmem)

end L5

end Simaple.Props.C06
