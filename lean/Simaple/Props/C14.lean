/-
C14 — plan text round-trips: printed operations re-parse to themselves.

Model: `Simaple.Model.Dsl` (hand-written lexer + parser for the Lark grammar of
`simaple/simulate/policy/parser.py`, `TreeToOperation`, the header split).  Numbers are abstract
(`NumModel`: `ofTok` = Python `float`, `repr` = Python `repr`); the only hypothesis about them is
`NumOk` (a printed float is a number token and reads back as the same float), sampled by the harness.
All statements are at CHARACTER level (the lexer lemma `lex_unlex` is proved for arbitrary Unicode
content of names and comments).
-/
import Simaple.Proofs.DslRuntime

namespace Simaple.Props.C14
open Simaple.Dsl

/-! ## the hypothesis on numbers and the parser's range -/

/-- `repr(x)` is a complete `SIGNED_NUMBER` token and `float(repr(x)) = x` (true of every finite
Python float; false for `inf`/`nan`, known finding F16) -/
structure NumOk (ν : NumModel) (x : ν.N) : Prop where
  tok : numTokOk (ν.repr x) = true
  roundtrip : ν.ofTok (ν.repr x) = x

/-- the operations `TreeToOperation` can build: command a `WORD`, name the inside of an
`ESCAPED_STRING` (any text without newline in which every `"` is escaped and that does not end in an odd
run of backslashes), time a finite float or absent; `expr` as built by the transformer -/
inductive InRange (ν : NumModel) : Operation ν → Prop
  | full {c n : Text} {t : ν.N} : wordOk c = true → nameOk n = true → NumOk ν t → InRange ν (mkFull ν c n t)
  | time {c : Text} {t : ν.N} : wordOk c = true → NumOk ν t → InRange ν (mkTime ν c t)
  | skill {c n : Text} : wordOk c = true → nameOk n = true → InRange ν (mkSkill ν c n)

/-- the raw (token-level) command of an operation in range -/
theorem InRange.raw {ν : NumModel} {o : Operation ν} (h : InRange ν o) :
    ∃ r : RawCmd, rawOk r = true ∧ r.isOp = true ∧ renderRaw r = o.expr ∧ interp ν r = .op o := by
  cases h with
  | @full c n t hc hn ht =>
    refine ⟨.full c n (ν.repr t), by simp [rawOk, hc, hn, ht.tok], rfl, rfl, ?_⟩
    simp [interp, ht.roundtrip]
  | @time c t hc ht =>
    refine ⟨.time c (ν.repr t), by simp [rawOk, hc, ht.tok], rfl, rfl, ?_⟩
    simp [interp, ht.roundtrip]
  | @skill c n hc hn =>
    exact ⟨.skill c n, by simp [rawOk, hc, hn], rfl, rfl, rfl⟩

/-! ## parse ∘ render -/

/-- a single command in the canonical layout parses to itself (also for the command word `x`) -/
theorem parse_single (r : RawCmd) (h : rawOk r = true) : parseRaw (renderRaw r) = .ok [r] := by
  have hsep : separated (rawToks r) = true := by
    have := separated_rawToks h (R := []) rfl (Or.inl rfl)
    simpa using this
  unfold parseRaw parseRawWith
  rw [← unlex_rawToks, lex_unlex _ hsep]
  cases r <;> rfl

/-- **parse_render**: every operation in the parser's range re-parses, from its own `expr`, to exactly
itself (same command, name, time and `expr`). -/
theorem parse_render (ν : NumModel) {o : Operation ν} (h : InRange ν o) :
    parseText ν (renderText o) = .ok [.op o] := by
  obtain ⟨r, hok, _, hren, hint⟩ := h.raw
  unfold parseText renderText
  rw [← hren, parse_single r hok]
  simp [Except.map, hint]

/-- the same on Python strings -/
theorem parse_render_string (ν : NumModel) {o : Operation ν} (h : InRange ν o) :
    parse ν (render o) = .ok [.op o] := by
  unfold parse render
  rw [String.toList_ofList]
  exact parse_render ν h

/-- the re-parsed operation carries the same `expr` -/
theorem parse_render_expr (ν : NumModel) {o : Operation ν} (h : InRange ν o) :
    ∃ o', parseText ν o.expr = .ok [.op o'] ∧ o'.expr = renderText o ∧ o' = o :=
  ⟨o, parse_render ν h, rfl, rfl⟩

/-- a `!debug` line re-parses to itself -/
theorem parse_render_console (ν : NumModel) {s : Text} (h : nameOk s = true) :
    parseText ν (renderCmd (Command.console (ν := ν) s)) = .ok [.console s] := by
  have := parse_single (.console s) (by simpa [rawOk] using h)
  unfold parseText
  simp only [renderCmd]
  simp only [renderRaw] at this
  rw [this]; rfl

/-! ## `xN <op>` -/

theorem separated_multLine {m : Text} {k : Int} (hm : pyInt m = some k) {r : RawCmd}
    (hr : rawOk r = true) : separated (toksOf [] [multLine m r]) = true := by
  obtain ⟨c, cs, rfl, hc, hnum⟩ := pyInt_shape hm
  obtain ⟨d, hd, hw⟩ := rawToks_head hr []
  have hsepr : separated (rawToks r) = true := by
    have := separated_rawToks hr (R := []) rfl (Or.inl rfl)
    simpa using this
  have htoks : toksOf [] [multLine (c :: cs) r] =
      Tok.word ['x'] :: Tok.num (c :: cs) :: Tok.white [' '] :: rawToks r := by
    cases r <;> rfl
  rw [htoks]
  simp only [separated, unlex, Bool.and_eq_true]
  refine ⟨?_, ?_, ?_, hsepr⟩
  · simp [okTok, wordOk, unlexTok, nextOk, hc]
  · simp [okTok, hnum, unlexTok, nextOk]; decide
  · simp only [List.append_nil] at hd
    simp [okTok, hd, nextOk, hw, show isWsChar ' ' = true by decide]

/-- **multiplier**: `x<m> <op>` (with `m` an integer literal `[+-]?[0-9]+`, as `int()` accepts) is that
operation `m` times; zero and negative multipliers give no operation at all. -/
theorem multiplier (ν : NumModel) {o : Operation ν} (h : InRange ν o) {m : Text} {k : Int}
    (hm : pyInt m = some k) :
    parseText ν ('x' :: m ++ ' ' :: renderText o) = .ok (List.replicate k.toNat (.op o)) := by
  obtain ⟨r, hok, hop, hren, hint⟩ := h.raw
  have hsep := separated_multLine hm hok
  have hgl : goodLine (multLine m r) = true := by
    cases r <;> first | rfl | simp [RawCmd.isOp] at hop
  have hun : ∀ l ∈ [multLine m r], unamb l = true := by
    intro l hl
    simp only [List.mem_singleton] at hl
    subst hl
    exact goodLine_unamb hgl rfl
  have hgood : goodLayout [] [multLine m r] = true := by
    simp only [goodLayout, goodLayoutFrom, hgl, Bool.and_eq_true, and_true]
    exact ⟨rfl, rfl⟩
  have hlay := good_layoutOk _ _ _ hgood
  have hp := parseRawWith_decorated patNone [] [multLine m r] hsep hun
  simp only [if_true] at hlay
  rw [hlay] at hp
  have htext : unlex (toksOf [] [multLine m r]) = 'x' :: m ++ ' ' :: renderText o := by
    have htoks : toksOf [] [multLine m r] =
        Tok.word ['x'] :: Tok.num m :: Tok.white [' '] :: rawToks r := by
      cases r <;> rfl
    rw [htoks]
    simp [unlex, unlexTok, unlex_rawToks, hren, renderText]
  unfold parseText parseRaw
  rw [← htext, hp]
  simp [expand, expandLine, multLine, hm, replD, pick, Except.map, hint]

/-- `n ≤ 0` gives `[]` -/
theorem multiplier_nonpos (ν : NumModel) {o : Operation ν} (h : InRange ν o) {m : Text} {k : Int}
    (hm : pyInt m = some k) (hk : k ≤ 0) :
    parseText ν ('x' :: m ++ ' ' :: renderText o) = .ok [] := by
  rw [multiplier ν h hm]
  have : k.toNat = 0 := by omega
  simp [this]

/-! ## layout -/

/-- **layout_irrelevant_partial**: take any command list with multipliers and lay it out with
* blanks and tabs between the tokens of a line (only blanks between `x` and the number),
* blanks and an optional `#…` comment at the end of every line, also after the last command,
* between two commands: any blank lines; if the next line is an operation without multiplier also
  lines that hold blanks/tabs and at most ONE whole-line comment (with only empty lines before it);
* anything of the above before the first command;
then the text parses to exactly the commands (a function of the commands and multipliers only: the
layout does not appear in the result).

PARTIAL: the property "comments, blank lines and spacing never change the parsed commands" does NOT hold
for the real grammar in the following classes, which are excluded by `goodLayout` (known finding F13;
rejected layouts are characterised exactly by `layout_rejected`; concrete witnesses below):
* a comment-only or blank line after the last command (`trailing-comment-line`, `trailing-blank-line`),
* two consecutive whole-line comments (`comment-line-run`),
* a whole-line comment or a blank line that contains blanks directly before a `!debug` line or a
  line with multiplier (`filler-before-console`),
* a TAB after the last token of a line (`trailing-tab`).
The full statement would be the same theorem with `goodLayout` replaced by "every gap consists of
blanks, tabs, line breaks and comments and contains a line break exactly between commands". -/
theorem layout_irrelevant_partial (lead : List GTok) (ls : List DLine)
    (hsep : separated (toksOf lead ls) = true)
    (hx : ∀ l ∈ ls, xfree l = true)
    (hgood : goodLayout lead ls = true) :
    parseRaw (unlex (toksOf lead ls)) = pick [expand ls] := by
  have hgl := good_goodLine _ _ _ hgood
  have hlay := good_layoutOk _ _ _ hgood
  simp only [if_true] at hlay
  unfold parseRaw
  rw [parseRawWith_decorated patNone lead ls hsep (fun l hl => goodLine_unamb (hgl l hl) (hx l hl)), hlay]
  rfl

/-- two layouts of the same commands (same command and multiplier on every line) parse alike -/
theorem layout_irrelevant_partial_pair (lead lead' : List GTok) (ls ls' : List DLine)
    (hsame : ls.map (fun l => (l.mult.map (·.tok), l.cmd)) = ls'.map (fun l => (l.mult.map (·.tok), l.cmd)))
    (hsep : separated (toksOf lead ls) = true) (hsep' : separated (toksOf lead' ls') = true)
    (hx : ∀ l ∈ ls, xfree l = true) (hx' : ∀ l ∈ ls', xfree l = true)
    (hgood : goodLayout lead ls = true) (hgood' : goodLayout lead' ls' = true) :
    parseRaw (unlex (toksOf lead ls)) = parseRaw (unlex (toksOf lead' ls')) := by
  rw [layout_irrelevant_partial lead ls hsep hx hgood,
    layout_irrelevant_partial lead' ls' hsep' hx' hgood']
  have : ∀ (a b : List DLine),
      a.map (fun l => (l.mult.map (·.tok), l.cmd)) = b.map (fun l => (l.mult.map (·.tok), l.cmd)) →
      expand a = expand b := by
    intro a
    induction a with
    | nil => intro b hb; cases b with
      | nil => rfl
      | cons y b => simp at hb
    | cons x a ih =>
      intro b hb
      cases b with
      | nil => simp at hb
      | cons y b =>
        simp only [List.map_cons, List.cons.injEq, Prod.mk.injEq] at hb
        obtain ⟨⟨hm, hc⟩, hrest⟩ := hb
        simp only [expand, expandLine, ih b hrest, hc]
        cases hxm : x.mult <;> cases hym : y.mult <;> simp_all
  rw [this ls ls' hsame]

/-- exact characterisation: a decorated plan whose gaps do not all match the grammar's slot pattern
is a syntax error (never a different command list) -/
theorem layout_rejected (base : Pat) (lead : List GTok) (ls : List DLine)
    (hsep : separated (toksOf lead ls) = true) (hun : ∀ l ∈ ls, unamb l = true)
    (hbad : layoutOk base lead ls = false) :
    parseRawWith base (unlex (toksOf lead ls)) = .error .syntax := by
  rw [parseRawWith_decorated base lead ls hsep hun, hbad]; rfl

/-- whatever the layout: the parse is the denoted commands or an error, never other commands -/
theorem layout_never_changes_commands (base : Pat) (lead : List GTok) (ls : List DLine)
    (hsep : separated (toksOf lead ls) = true) (hun : ∀ l ∈ ls, unamb l = true) :
    parseRawWith base (unlex (toksOf lead ls)) = pick [expand ls] ∨
    parseRawWith base (unlex (toksOf lead ls)) = .error .syntax := by
  rw [parseRawWith_decorated base lead ls hsep hun]
  cases layoutOk base lead ls
  · exact Or.inr rfl
  · exact Or.inl rfl

/-! ## whole plans -/

/-- a command the writer may print: an operation in range whose command word is not `x`
(a line `x 3.0` followed by another line is ambiguous in the grammar), or a `!debug` line -/
inductive CmdInRange (ν : NumModel) : Command ν → Prop
  | op {o : Operation ν} : InRange ν o → o.command ≠ ['x'] → CmdInRange ν (.op o)
  | console {s : Text} : nameOk s = true → CmdInRange ν (.console s)

theorem CmdInRange.raw {ν : NumModel} {c : Command ν} (h : CmdInRange ν c) :
    ∃ r : RawCmd, rawOk r = true ∧ rawXfree r = true ∧ renderRaw r = renderCmd c ∧ interp ν r = c := by
  cases h with
  | @op o ho hx =>
    cases ho with
    | @full c n t hc hn ht =>
      refine ⟨.full c n (ν.repr t), by simp [rawOk, hc, hn, ht.tok], rfl, rfl, ?_⟩
      simp [interp, ht.roundtrip]
    | @time c t hc ht =>
      refine ⟨.time c (ν.repr t), by simp [rawOk, hc, ht.tok], ?_, rfl, ?_⟩
      · simpa [rawXfree, mkTime] using hx
      · simp [interp, ht.roundtrip]
    | @skill c n hc hn =>
      exact ⟨.skill c n, by simp [rawOk, hc, hn], rfl, rfl, rfl⟩
  | @console s hs => exact ⟨.console s, by simpa [rawOk] using hs, rfl, rfl, rfl⟩

theorem cmds_raw {ν : NumModel} : ∀ (cmds : List (Command ν)), (∀ c ∈ cmds, CmdInRange ν c) →
    ∃ rs : List RawCmd, (∀ r ∈ rs, rawOk r = true) ∧ (∀ r ∈ rs, rawXfree r = true) ∧
      rs.map renderRaw = cmds.map renderCmd ∧ rs.map (interp ν) = cmds ∧ rs.length = cmds.length
  | [], _ => ⟨[], by simp, by simp, rfl, rfl, rfl⟩
  | c :: cs, h => by
    obtain ⟨r, h1, h2, h3, h4⟩ := (h c (by simp)).raw
    obtain ⟨rs, g1, g2, g3, g4, g5⟩ := cmds_raw cs (fun x hx => h x (List.mem_cons_of_mem _ hx))
    refine ⟨r :: rs, ?_, ?_, by simp [h3, g3], by simp [h4, g4], by simp [g5]⟩
    · intro x hx; rcases List.mem_cons.mp hx with rfl | hx
      · exact h1
      · exact g1 x hx
    · intro x hx; rcases List.mem_cons.mp hx with rfl | hx
      · exact h2
      · exact g2 x hx

theorem canonLine_lead_none (r : RawCmd) (after : List GTok) :
    gapFits (leadPat patNone (canonLine r after)) [] = true := by
  cases r <;> rfl

theorem canonLine_lead_hdr (r : RawCmd) (after : List GTok) :
    gapFits (leadPat patHdr (canonLine r after)) [.white ['\n']] = true := by
  cases r <;> rfl

theorem canonLines_head_is_canon : ∀ (rs : List RawCmd) (l : DLine) (ls : List DLine),
    canonLines rs = l :: ls → ∃ r after, l = canonLine r after
  | [], _, _, h => by simp [canonLines] at h
  | [r], _, _, h => by simp only [canonLines, List.cons.injEq] at h; exact ⟨r, [], h.1.symm⟩
  | r :: r' :: rs', _, _, h => by
    simp only [canonLines, List.cons.injEq] at h; exact ⟨r, _, h.1.symm⟩

/-- the printed body (one command per line) parses back to the commands -/
theorem body_round_trip (ν : NumModel) (cmds : List (Command ν)) (hne : cmds ≠ [])
    (hr : ∀ c ∈ cmds, CmdInRange ν c) :
    parseText ν (joinLines (cmds.map renderCmd)) = .ok cmds := by
  obtain ⟨rs, hok, hx, hren, hint, hlen⟩ := cmds_raw cmds hr
  have hrs : rs ≠ [] := by
    intro h; subst h; cases cmds with
    | nil => exact hne rfl
    | cons c cs => simp at hlen
  have hsep : separated (toksOf [] (canonLines rs)) = true := by
    simpa [toksOf] using separated_canonLines rs hok
  have hp := parse_canonical patNone [] rs hrs hok hx hsep (by
    intro l ls hl
    obtain ⟨r, after, rfl⟩ := canonLines_head_is_canon rs l ls hl
    exact canonLine_lead_none r after)
  have htext : unlex (toksOf [] (canonLines rs)) = joinLines (cmds.map renderCmd) := by
    simp [toksOf, unlex_canonLines, hren]
  unfold parseText parseRaw
  rw [← htext, hp]
  simp [Except.map, hint]

/-- **plan_round_trip**: the plan text the API writes — `---`, the dumped metadata, `---`, one
command per line — parses back to the same metadata and the same commands.  YAML is abstract: the
only hypothesis is that loading the header text `"---\n" ++ dump m ++ "\n"` gives `m` back
(`yaml.safe_load(yaml.safe_dump(m)) == m`, sampled by the harness). -/
theorem plan_round_trip (ν : NumModel) (Y : YamlModel) (dumped : Text) (m : Y.M)
    (cmds : List (Command ν)) (hne : cmds ≠ [])
    (hY : Y.load ('-' :: '-' :: '-' :: '\n' :: dumped ++ ['\n']) = some m)
    (hr : ∀ c ∈ cmds, CmdInRange ν c) :
    parseRuntimeText ν Y (renderPlanText dumped cmds) = .ok (m, cmds) := by
  obtain ⟨rs, hok, hx, hren, hint, hlen⟩ := cmds_raw cmds hr
  have hrs : rs ≠ [] := by
    intro h; subst h; cases cmds with
    | nil => exact hne rfl
    | cons c cs => simp at hlen
  obtain ⟨r0, rs0, hrs0⟩ : ∃ r0 rs0, rs = r0 :: rs0 := by
    cases rs with
    | nil => exact absurd rfl hrs
    | cons a b => exact ⟨a, b, rfl⟩
  -- the body text
  have hJ : joinLines (cmds.map renderCmd) = joinLines (rs.map renderRaw) := by rw [hren]
  obtain ⟨mid, z, hmz, hz⟩ := joinLines_last rs hrs hok
  obtain ⟨d, rest, hd, hda⟩ : ∃ d rest, joinLines (rs.map renderRaw) = d :: rest ∧
      (d.isAlpha = true ∨ d = '!') := by
    obtain ⟨d, rest, hd, hda⟩ := renderRaw_head (hok r0 (by simp [hrs0]))
    subst hrs0
    cases rs0 with
    | nil => exact ⟨d, rest, by simp [joinLines, hd], hda⟩
    | cons r1 rs1 =>
      exact ⟨d, rest ++ '\n' :: joinLines ((r1 :: rs1).map renderRaw),
        by simp [joinLines_cons_cons, hd], hda⟩
  have hdws : isWsChar d = false := by
    rcases hda with h | h
    · exact isWsChar_not_alpha h
    · subst h; decide
  -- strip does nothing
  have hstrip : pyStrip (renderPlanText dumped cmds) = renderPlanText dumped cmds := by
    unfold renderPlanText
    rw [hJ, hmz]
    have := pyStrip_id '-' z ('-' :: '-' :: '\n' :: dumped ++ '\n' :: '-' :: '-' :: '-' :: '\n' :: mid)
      (by decide) hz
    simpa using this
  -- the header is cut at the last `\n---`
  have hbody : splitHeader ('\n' :: joinLines (rs.map renderRaw)) = none := by
    apply splitHeader_nl_none (splitHeader_body_none rs hok)
    rw [hd]; exact startsDashes_none_of_head (head_not_dash hda)
  have hsplit := splitHeader_last hbody ('-' :: '-' :: '\n' :: dumped)
  -- the body after the header
  have hsep : separated (toksOf [.white ['\n']] (canonLines rs)) = true := by
    have h1 := separated_canonLines rs hok
    have h2 := unlex_canonLines rs
    simp only [toksOf, List.map_cons, List.map_nil, GTok.toTok, List.cons_append, List.nil_append,
      separated, Bool.and_eq_true]
    refine ⟨?_, h1⟩
    rw [h2, hd]
    simp [okTok, nextOk, hdws, show isWsChar '\n' = true by decide]
  have hp := parse_canonical patHdr [.white ['\n']] rs hrs hok hx hsep (by
    intro l ls hl
    obtain ⟨r, after, rfl⟩ := canonLines_head_is_canon rs l ls hl
    exact canonLine_lead_hdr r after)
  have htext : unlex (toksOf [.white ['\n']] (canonLines rs)) = '\n' :: joinLines (rs.map renderRaw) := by
    simp [toksOf, GTok.toTok, unlex, unlexTok, unlex_canonLines]
  rw [htext] at hp
  unfold parseRuntimeText
  rw [hstrip]
  unfold renderPlanText
  rw [hJ]
  simp only [List.cons_append] at hsplit hY ⊢
  rw [if_neg (by decide), hsplit]
  simp only [Option.map_some, hp, hY, hint]

end Simaple.Props.C14
