/-
C14 — plan text round-trips: printed operations re-parse to themselves.

Model: `Simaple.Model.Dsl` (hand-written lexer + parser for the Lark grammar of
`simaple/simulate/policy/parser.py`, `TreeToOperation`, the header split).  Numbers are abstract
(`NumModel`: `ofTok` = Python `float`, `repr` = Python `repr`); the only hypothesis about them is
`NumOk` (a printed float is a number token and reads back as the same float), sampled by the harness.
All statements are at CHARACTER level (the lexer lemma `lex_unlex` is proved for arbitrary Unicode
content of names and comments).
-/
import Simaple.Proofs.DslProduced

namespace Simaple.Props.C14
open Simaple.Dsl

/-! ## parse ∘ render -/

/-- **parse_render**: every operation in the parser's range re-parses, from its own `expr`, to exactly
itself (same command, name, time and `expr`). -/
theorem parse_render (ν : NumModel) {o : Operation ν} (h : InRange ν o) :
    parseText ν (renderText o) = .ok [.op o] := by
  obtain ⟨r, hok, _, hren, hint, hfin⟩ := h.raw'
  unfold parseText renderText
  rw [← hren, parse_single r hok]
  simp [interpAll, hfin, hint]

/-- the same on Python strings -/
theorem parse_render_string (ν : NumModel) {o : Operation ν} (h : InRange ν o) :
    parse ν (render o) = .ok [.op o] := by
  unfold parse render
  rw [String.toList_ofList]
  exact parse_render ν h

/-- the re-parsed operation carries the same `expr` -/
theorem parse_render_expr (ν : NumModel) {o : Operation ν} (h : InRange ν o) :
    ∃ o', parseText ν o.expr = .ok [.op o'] ∧ o'.expr = renderText o ∧ o' = o :=
  ⟨o, parse_render ν h, rfl, rfl⟩

/-- a `!debug` line re-parses to itself -/
theorem parse_render_console (ν : NumModel) {s : Text} (h : nameOk s = true) :
    parseText ν (renderCmd (Command.console (ν := ν) s)) = .ok [.console s] := by
  have := parse_single (.console s) (by simpa [rawOk] using h)
  unfold parseText
  simp only [renderCmd]
  simp only [renderRaw] at this
  rw [this]; rfl

/-- every operation the parser returns — from ANY text — lies in the parser's range, as soon as its
time (if any) is a float that prints and reads back (`NumOk`; i.e. it is finite) -/
theorem produced_in_range (ν : NumModel) {s : Text} {cmds : List (Command ν)}
    (h : parseText ν s = .ok cmds) {o : Operation ν} (ho : Command.op o ∈ cmds)
    (hnum : ∀ t, o.time = some t → NumOk ν t) : InRange ν o := by
  unfold parseText at h
  cases hp : parseRaw s with
  | error e => simp [hp] at h
  | ok rs =>
    simp only [hp, interpAll] at h
    split at h
    case isFalse => cases h
    simp only [Except.ok.injEq] at h
    subst h
    obtain ⟨r, hr, hint⟩ := List.mem_map.mp ho
    have hok := parseRawWith_range hp r hr
    cases r with
    | full c n t =>
      simp only [interp, Command.op.injEq] at hint
      subst hint
      simp only [rawOk, Bool.and_eq_true] at hok
      exact InRange.full hok.1.1 hok.1.2 (hnum _ rfl)
    | skill c n =>
      simp only [interp, Command.op.injEq] at hint
      subst hint
      simp only [rawOk, Bool.and_eq_true] at hok
      exact InRange.skill hok.1 hok.2
    | time c t =>
      simp only [interp, Command.op.injEq] at hint
      subst hint
      simp only [rawOk, Bool.and_eq_true] at hok
      exact InRange.time hok.1 (hnum _ rfl)
    | console s => simp [interp] at hint

/-- **the first sentence of the property**: every operation the plan parser produces carries a
textual form (`expr`) that parses back to exactly that operation (times finite: `NumOk`) -/
theorem reparse_of_parsed (ν : NumModel) {s : Text} {cmds : List (Command ν)}
    (h : parseText ν s = .ok cmds) {o : Operation ν} (ho : Command.op o ∈ cmds)
    (hnum : ∀ t, o.time = some t → NumOk ν t) : parseText ν o.expr = .ok [.op o] :=
  parse_render ν (produced_in_range ν h ho hnum)

/-- since the repair of F16 (`TreeToOperation.time` rejects a literal that overflows to `inf`): every time the
parser returns — from ANY text — is finite -/
theorem produced_times_finite (ν : NumModel) {s : Text} {cmds : List (Command ν)}
    (h : parseText ν s = .ok cmds) {o : Operation ν} (ho : Command.op o ∈ cmds) :
    ∀ t, o.time = some t → ν.finite t = true := by
  unfold parseText at h
  cases hp : parseRaw s with
  | error e => simp [hp] at h
  | ok rs =>
    simp only [hp, interpAll] at h
    split at h
    case isFalse => cases h
    rename_i hall
    simp only [Except.ok.injEq] at h
    subst h
    obtain ⟨r, hr, hint⟩ := List.mem_map.mp ho
    have hf := List.all_eq_true.mp hall r hr
    intro t ht
    cases r with
    | full c n tk =>
      simp only [interp, Command.op.injEq] at hint
      subst hint
      simp only [mkFull, Option.some.injEq] at ht
      subst ht
      exact hf
    | skill c n =>
      simp only [interp, Command.op.injEq] at hint
      subst hint
      simp [mkSkill] at ht
    | time c tk =>
      simp only [interp, Command.op.injEq] at hint
      subst hint
      simp only [mkTime, Option.some.injEq] at ht
      subst ht
      exact hf
    | console s => simp [interp] at hint

/-- **the first sentence of the property, without a side condition on the operation**: under the single law of
the number model "a finite float prints as one number token and reads back as itself" (true of CPython's
`repr`/`float`; sampled on every run), EVERY operation the parser returns from ANY text re-parses from its
`expr` to exactly itself.  Before the repair of F16 this was false for `ELAPSE 1e999`. -/
theorem reparse_of_parsed_total (ν : NumModel)
    (hlaw : ∀ x, ν.finite x = true → numTokOk (ν.repr x) = true ∧ ν.ofTok (ν.repr x) = x)
    {s : Text} {cmds : List (Command ν)} (h : parseText ν s = .ok cmds) {o : Operation ν}
    (ho : Command.op o ∈ cmds) : parseText ν o.expr = .ok [.op o] :=
  reparse_of_parsed ν h ho (fun t ht =>
    have hf := produced_times_finite ν h ho t ht
    ⟨(hlaw t hf).1, (hlaw t hf).2, hf⟩)

/-! ## `xN <op>` -/

/-- **multiplier**: `x<m> <op>` (with `m` an integer literal `[+-]?[0-9]+`, as `int()` accepts) is that
operation `m` times; zero and negative multipliers give no operation at all. -/
theorem multiplier (ν : NumModel) {o : Operation ν} (h : InRange ν o) {m : Text} {k : Int}
    (hm : pyInt m = some k) :
    parseText ν ('x' :: m ++ ' ' :: renderText o) = .ok (List.replicate k.toNat (.op o)) := by
  obtain ⟨r, hok, hop, hren, hint, hfin⟩ := h.raw'
  have hsep := separated_multLine hm hok
  have hgl : goodLine (multLine m r) = true := by
    cases r <;> first | rfl | simp [RawCmd.isOp] at hop
  have hun : ∀ l ∈ [multLine m r], unamb l = true := by
    intro l hl
    simp only [List.mem_singleton] at hl
    subst hl
    exact goodLine_unamb hgl rfl
  have hgood : goodLayout [] [multLine m r] = true := by
    simp only [goodLayout, goodLayoutFrom, hgl, Bool.and_eq_true, and_true]
    exact ⟨rfl, rfl⟩
  have hlay := good_layoutOk _ _ _ hgood
  have hp := parseRawWith_decorated patNone [] [multLine m r] hsep hun
  simp only [if_true] at hlay
  rw [hlay] at hp
  have htext : unlex (toksOf [] [multLine m r]) = 'x' :: m ++ ' ' :: renderText o := by
    have htoks : toksOf [] [multLine m r] =
        Tok.word ['x'] :: Tok.num m :: Tok.white [' '] :: rawToks r := by
      cases r <;> rfl
    rw [htoks]
    simp [unlex, unlexTok, unlex_rawToks, hren, renderText]
  unfold parseText parseRaw
  rw [← htext, hp]
  have hall : (List.replicate k.toNat r).all (timeFinite ν) = true := by
    rw [List.all_eq_true]; intro x hx'; rw [List.eq_of_mem_replicate hx']; exact hfin
  simp [expand, expandLine, multLine, hm, replD, pick, interpAll, hall, hint]

/-- `n ≤ 0` gives `[]` -/
theorem multiplier_nonpos (ν : NumModel) {o : Operation ν} (h : InRange ν o) {m : Text} {k : Int}
    (hm : pyInt m = some k) (hk : k ≤ 0) :
    parseText ν ('x' :: m ++ ' ' :: renderText o) = .ok [] := by
  rw [multiplier ν h hm]
  have : k.toNat = 0 := by omega
  simp [this]

/-! ## layout -/

/-- **layout_irrelevant_partial**: take any command list with multipliers and lay it out with
* blanks and tabs between the tokens of a line (only blanks between `x` and the number),
* blanks and an optional `#…` comment at the end of every line, also after the last command,
* between two commands: any blank lines; if the next line is an operation without multiplier also
  lines that hold blanks/tabs and at most ONE whole-line comment (with only empty lines before it);
* anything of the above before the first command;
then the text parses to exactly the commands (a function of the commands and multipliers only: the
layout does not appear in the result).

PARTIAL: the property "comments, blank lines and spacing never change the parsed commands" does NOT hold
for the real grammar in the following classes, which are excluded by `goodLayout` (known finding F13;
rejected layouts are characterised exactly by `layout_rejected`; concrete witnesses below):
* a comment-only or blank line after the last command (`trailing-comment-line`, `trailing-blank-line`),
* two consecutive whole-line comments (`comment-line-run`),
* a whole-line comment or a blank line that contains blanks directly before a `!debug` line or a
  line with multiplier (`filler-before-console`),
* a TAB after the last token of a line (`trailing-tab`).
The full statement would be the same theorem with `goodLayout` replaced by "every gap consists of
blanks, tabs, line breaks and comments and contains a line break exactly between commands". -/
theorem layout_irrelevant_partial (lead : List GTok) (ls : List DLine)
    (hsep : separated (toksOf lead ls) = true)
    (hx : ∀ l ∈ ls, xfree l = true)
    (hgood : goodLayout lead ls = true) :
    parseRaw (unlex (toksOf lead ls)) = pick [expand ls] := by
  have hgl := good_goodLine _ _ _ hgood
  have hlay := good_layoutOk _ _ _ hgood
  simp only [if_true] at hlay
  unfold parseRaw
  rw [parseRawWith_decorated patNone lead ls hsep (fun l hl => goodLine_unamb (hgl l hl) (hx l hl)), hlay]
  rfl

/-- two layouts of the same commands (same command and multiplier on every line) parse alike -/
theorem layout_irrelevant_partial_pair (lead lead' : List GTok) (ls ls' : List DLine)
    (hsame : ls.map (fun l => (l.mult.map (·.tok), l.cmd)) = ls'.map (fun l => (l.mult.map (·.tok), l.cmd)))
    (hsep : separated (toksOf lead ls) = true) (hsep' : separated (toksOf lead' ls') = true)
    (hx : ∀ l ∈ ls, xfree l = true) (hx' : ∀ l ∈ ls', xfree l = true)
    (hgood : goodLayout lead ls = true) (hgood' : goodLayout lead' ls' = true) :
    parseRaw (unlex (toksOf lead ls)) = parseRaw (unlex (toksOf lead' ls')) := by
  rw [layout_irrelevant_partial lead ls hsep hx hgood,
    layout_irrelevant_partial lead' ls' hsep' hx' hgood']
  have : ∀ (a b : List DLine),
      a.map (fun l => (l.mult.map (·.tok), l.cmd)) = b.map (fun l => (l.mult.map (·.tok), l.cmd)) →
      expand a = expand b := by
    intro a
    induction a with
    | nil => intro b hb; cases b with
      | nil => rfl
      | cons y b => simp at hb
    | cons x a ih =>
      intro b hb
      cases b with
      | nil => simp at hb
      | cons y b =>
        simp only [List.map_cons, List.cons.injEq, Prod.mk.injEq] at hb
        obtain ⟨⟨hm, hc⟩, hrest⟩ := hb
        simp only [expand, expandLine, ih b hrest, hc]
        cases hxm : x.mult <;> cases hym : y.mult <;> simp_all
  rw [this ls ls' hsame]

/-- exact characterisation: a decorated plan whose gaps do not all match the grammar's slot pattern
is a syntax error (never a different command list) -/
theorem layout_rejected (base : Pat) (lead : List GTok) (ls : List DLine)
    (hsep : separated (toksOf lead ls) = true) (hun : ∀ l ∈ ls, unamb l = true)
    (hbad : layoutOk base lead ls = false) :
    parseRawWith base (unlex (toksOf lead ls)) = .error .syntax := by
  rw [parseRawWith_decorated base lead ls hsep hun, hbad]; rfl

/-- whatever the layout: the parse is the denoted commands or an error, never other commands -/
theorem layout_never_changes_commands (base : Pat) (lead : List GTok) (ls : List DLine)
    (hsep : separated (toksOf lead ls) = true) (hun : ∀ l ∈ ls, unamb l = true) :
    parseRawWith base (unlex (toksOf lead ls)) = pick [expand ls] ∨
    parseRawWith base (unlex (toksOf lead ls)) = .error .syntax := by
  rw [parseRawWith_decorated base lead ls hsep hun]
  cases layoutOk base lead ls
  · exact Or.inr rfl
  · exact Or.inl rfl

/-! ## whole plans -/

/-- the printed body (one command per line) parses back to the commands -/
theorem body_round_trip (ν : NumModel) (cmds : List (Command ν)) (hne : cmds ≠ [])
    (hr : ∀ c ∈ cmds, CmdInRange ν c) :
    parseText ν (joinLines (cmds.map renderCmd)) = .ok cmds := by
  obtain ⟨rs, hok, hx, hren, hint, hlen, hfin⟩ := cmds_raw' cmds hr
  have hrs : rs ≠ [] := by
    intro h; subst h; cases cmds with
    | nil => exact hne rfl
    | cons c cs => simp at hlen
  have hsep : separated (toksOf [] (canonLines rs)) = true := by
    simpa [toksOf] using separated_canonLines rs hok
  have hp := parse_canonical patNone [] rs hrs hok hx hsep (by
    intro l ls hl
    obtain ⟨r, after, rfl⟩ := canonLines_head_is_canon rs l ls hl
    exact canonLine_lead_none r after)
  have htext : unlex (toksOf [] (canonLines rs)) = joinLines (cmds.map renderCmd) := by
    simp [toksOf, unlex_canonLines, hren]
  unfold parseText parseRaw
  rw [← htext, hp]
  simp [interpAll, hfin, hint]

/-- **plan_round_trip**: the plan text the API writes — `---`, the dumped metadata, `---`, one
command per line — parses back to the same metadata and the same commands.  YAML is abstract: the
only hypothesis is that loading the header text `"---\n" ++ dump m ++ "\n"` gives `m` back
(`yaml.safe_load(yaml.safe_dump(m)) == m`, sampled by the harness). -/
theorem plan_round_trip (ν : NumModel) (Y : YamlModel) (dumped : Text) (m : Y.M)
    (cmds : List (Command ν)) (hne : cmds ≠ [])
    (hY : Y.load ('-' :: '-' :: '-' :: '\n' :: dumped ++ ['\n']) = some m)
    (hr : ∀ c ∈ cmds, CmdInRange ν c) :
    parseRuntimeText ν Y (renderPlanText dumped cmds) = .ok (m, cmds) := by
  obtain ⟨rs, hok, hx, hren, hint, hlen, hfin⟩ := cmds_raw' cmds hr
  have hrs : rs ≠ [] := by
    intro h; subst h; cases cmds with
    | nil => exact hne rfl
    | cons c cs => simp at hlen
  obtain ⟨r0, rs0, hrs0⟩ : ∃ r0 rs0, rs = r0 :: rs0 := by
    cases rs with
    | nil => exact absurd rfl hrs
    | cons a b => exact ⟨a, b, rfl⟩
  -- the body text
  have hJ : joinLines (cmds.map renderCmd) = joinLines (rs.map renderRaw) := by rw [hren]
  obtain ⟨mid, z, hmz, hz⟩ := joinLines_last rs hrs hok
  obtain ⟨d, rest, hd, hda⟩ : ∃ d rest, joinLines (rs.map renderRaw) = d :: rest ∧
      (d.isAlpha = true ∨ d = '!') := by
    obtain ⟨d, rest, hd, hda⟩ := renderRaw_head (hok r0 (by simp [hrs0]))
    subst hrs0
    cases rs0 with
    | nil => exact ⟨d, rest, by simp [joinLines, hd], hda⟩
    | cons r1 rs1 =>
      exact ⟨d, rest ++ '\n' :: joinLines ((r1 :: rs1).map renderRaw),
        by simp [joinLines_cons_cons, hd], hda⟩
  have hdws : isWsChar d = false := by
    rcases hda with h | h
    · exact isWsChar_not_alpha h
    · subst h; decide
  -- strip does nothing
  have hstrip : pyStrip (renderPlanText dumped cmds) = renderPlanText dumped cmds := by
    unfold renderPlanText
    rw [hJ, hmz]
    have := pyStrip_id '-' z ('-' :: '-' :: '\n' :: dumped ++ '\n' :: '-' :: '-' :: '-' :: '\n' :: mid)
      (by decide) hz
    simpa using this
  -- the header is cut at the last `\n---`
  have hbody : splitHeader ('\n' :: joinLines (rs.map renderRaw)) = none := by
    apply splitHeader_nl_none (splitHeader_body_none rs hok)
    rw [hd]; exact startsDashes_none_of_head (head_not_dash hda)
  have hsplit := splitHeader_last hbody ('-' :: '-' :: '\n' :: dumped)
  -- the body after the header
  have hsep : separated (toksOf [.white ['\n']] (canonLines rs)) = true := by
    have h1 := separated_canonLines rs hok
    have h2 := unlex_canonLines rs
    simp only [toksOf, List.map_cons, List.map_nil, GTok.toTok, List.cons_append, List.nil_append,
      separated, Bool.and_eq_true]
    refine ⟨?_, h1⟩
    rw [h2, hd]
    simp [okTok, nextOk, hdws, show isWsChar '\n' = true by decide]
  have hp := parse_canonical patHdr [.white ['\n']] rs hrs hok hx hsep (by
    intro l ls hl
    obtain ⟨r, after, rfl⟩ := canonLines_head_is_canon rs l ls hl
    exact canonLine_lead_hdr r after)
  have htext : unlex (toksOf [.white ['\n']] (canonLines rs)) = '\n' :: joinLines (rs.map renderRaw) := by
    simp [toksOf, GTok.toTok, unlex, unlexTok, unlex_canonLines]
  rw [htext] at hp
  unfold parseRuntimeText
  rw [hstrip]
  unfold renderPlanText
  rw [hJ]
  simp only [List.cons_append] at hsplit hY ⊢
  rw [if_neg (by decide), hsplit]
  simp only [Option.map_some, hp, interpAll_ok hfin, hY, hint]

/-! ## non-vacuity: concrete instances satisfy every hypothesis

`tokNum` is the number model "a float is its decimal token" (`ofTok = repr = id`); for it `NumOk x` is
just "x is a number token".  The real Python instance (`float`, `repr`) is validated by the harness. -/

deriving instance DecidableEq for Except

/-- `CAST "라이트닝 \"스피어\" #1" 2e+2` -/
def exOp : Operation tokNum :=
  mkFull tokNum "CAST".toList "라이트닝 \\\"스피어\\\" #1".toList "2e+2".toList

/-- a literal that overflows is rejected (it used to parse to `inf`) -/
example : (match parseText tokNum "ELAPSE 1e999".toList with | .error .valueError => true | _ => false) = true := by
  decide +kernel
example : (match parseText tokNum "USE \"a\" -1.8e308".toList with | .error .valueError => true | _ => false) = true := by
  decide +kernel
/-- the largest double is still accepted -/
example : (parseText tokNum "ELAPSE 1.7976931348623157e308".toList).toOption.isSome = true := by decide +kernel
example : tokFinite "179769313486231580793728971405303415079934132710037826936173778980444968292764750946649017977587207096330286416692887910946555547851940402630657488671505820681908902000708383676273854845817711531764475730270069855571366959622842914819860834936475292719074168444365510704342711559699508093042880177904174497791".toList = true := by decide +kernel
example : tokFinite "179769313486231580793728971405303415079934132710037826936173778980444968292764750946649017977587207096330286416692887910946555547851940402630657488671505820681908902000708383676273854845817711531764475730270069855571366959622842914819860834936475292719074168444365510704342711559699508093042880177904174497792".toList = false := by decide +kernel

theorem exOp_inRange : InRange tokNum exOp :=
  InRange.full (by decide) (by decide) ⟨by decide, rfl, by decide +kernel⟩

example : parseText tokNum (renderText exOp) = .ok [.op exOp] := parse_render tokNum exOp_inRange

/-- `x3 CAST …` -/
example : parseText tokNum ('x' :: ['3'] ++ ' ' :: renderText exOp) = .ok [.op exOp, .op exOp, .op exOp] :=
  multiplier tokNum exOp_inRange (m := ['3']) (k := 3) (by decide)

/-- `x-2 CAST …` -/
example : parseText tokNum ('x' :: ['-', '2'] ++ ' ' :: renderText exOp) = .ok [] :=
  multiplier_nonpos tokNum exOp_inRange (m := ['-', '2']) (k := -2) (by decide) (by decide)

/-- a layout with indentation, tabs, a trailing comment, empty lines, one whole-line comment, blank
lines that hold blanks and tabs, CRLF, a multiplier line and a `!debug` line:
```
  # plan
	USE	 "a b"  1.5 # first

#note
 	
  ELAPSE -.5e1␍
␍
x +2	CAST "#x"  
!debug "dbg" #end
``` -/
def exLead : List GTok := [.white "  ".toList, .comment " plan".toList, .white "\n\t".toList]
def exLines : List DLine :=
  [ ⟨none, .full "USE".toList "a b".toList "1.5".toList, [.white "\t ".toList], [.white "  ".toList],
      [.white " ".toList, .comment " first".toList, .white "\n\n".toList, .comment "note".toList,
       .white "\n \t\n  ".toList]⟩,
    ⟨none, .time "ELAPSE".toList "-.5e1".toList, [.white " ".toList], [],
      [.white "\r\n\r\n".toList]⟩,
    ⟨some ⟨"+2".toList, [.white " ".toList], [.white "\t".toList]⟩, .skill "CAST".toList "#x".toList,
      [.white " ".toList], [], [.white "  \n".toList]⟩,
    ⟨none, .console "dbg".toList, [.white " ".toList], [], [.white " ".toList, .comment "end".toList]⟩ ]

example : unlex (toksOf exLead exLines) =
    "  # plan\n\tUSE\t \"a b\"  1.5 # first\n\n#note\n \t\n  ELAPSE -.5e1\r\n\r\nx +2\tCAST \"#x\"  \n!debug \"dbg\" #end".toList := by
  decide

example : parseRaw (unlex (toksOf exLead exLines)) =
    .ok [.full "USE".toList "a b".toList "1.5".toList, .time "ELAPSE".toList "-.5e1".toList,
         .skill "CAST".toList "#x".toList, .skill "CAST".toList "#x".toList, .console "dbg".toList] :=
  layout_irrelevant_partial exLead exLines (by decide) (by decide) (by decide)

/-- a plan with header -/
def exCmds : List (Command tokNum) :=
  [.op exOp, .console "x".toList, .op (mkTime tokNum "ELAPSE".toList "210.0".toList)]

example : parseRuntimeText tokNum rawYaml (renderPlanText "a: 1".toList exCmds) =
    .ok ('-' :: '-' :: '-' :: '\n' :: "a: 1".toList ++ ['\n'], exCmds) :=
  plan_round_trip tokNum rawYaml _ _ _ (by simp [exCmds]) rfl (by
    intro c hc
    simp only [exCmds, List.mem_cons, List.mem_nil_iff, or_false] at hc
    rcases hc with rfl | rfl | rfl
    · exact .op exOp_inRange (by decide)
    · exact .console (by decide)
    · exact .op (.time (by decide) ⟨by decide, rfl, by decide +kernel⟩) (by decide))

/-! ## the excluded layouts are really rejected by the grammar (known finding F13); the accepted
neighbours are accepted -/

def castA (after : List GTok) : DLine := ⟨none, .skill "CAST".toList ['a'], [.white [' ']], [], after⟩
def castB (after : List GTok) : DLine := ⟨none, .skill "CAST".toList ['b'], [.white [' ']], [], after⟩
def dbgX (after : List GTok) : DLine := ⟨none, .console ['x'], [.white [' ']], [], after⟩

/-- accepted: ONE whole-line comment between two operations -/
example : unlex (toksOf [] [castA [.white ['\n'], .comment ['c'], .white ['\n']], castB []]) =
    "CAST \"a\"\n#c\nCAST \"b\"".toList := by decide
example : parseRaw (unlex (toksOf [] [castA [.white ['\n'], .comment ['c'], .white ['\n']], castB []])) =
    .ok [.skill "CAST".toList ['a'], .skill "CAST".toList ['b']] :=
  layout_irrelevant_partial _ _ (by decide) (by decide) (by decide)

/-- rejected, `trailing-comment-line`: `CAST "a"\n#c` -/
example : unlex (toksOf [] [castA [.white ['\n'], .comment ['c']]]) = "CAST \"a\"\n#c".toList := by decide
example : parseRaw (unlex (toksOf [] [castA [.white ['\n'], .comment ['c']]])) = .error .syntax :=
  layout_rejected patNone _ _ (by decide) (by decide) (by decide)

/-- rejected, `trailing-blank-line`: `CAST "a"\n` -/
example : parseRaw (unlex (toksOf [] [castA [.white ['\n']]])) = .error .syntax :=
  layout_rejected patNone _ _ (by decide) (by decide) (by decide)

/-- rejected, `comment-line-run`: `CAST "a"\n#c\n#d\nCAST "b"` -/
example : unlex (toksOf [] [castA [.white ['\n'], .comment ['c'], .white ['\n'], .comment ['d'], .white ['\n']], castB []]) =
    "CAST \"a\"\n#c\n#d\nCAST \"b\"".toList := by decide
example : parseRaw (unlex (toksOf [] [castA [.white ['\n'], .comment ['c'], .white ['\n'], .comment ['d'], .white ['\n']], castB []])) =
    .error .syntax :=
  layout_rejected patNone _ _ (by decide) (by decide) (by decide)

/-- rejected, `filler-before-console`: `CAST "a"\n#c\n!debug "x"` and `CAST "a"\n  \n!debug "x"`;
accepted: `CAST "a"\n\n!debug "x"` -/
example : parseRaw (unlex (toksOf [] [castA [.white ['\n'], .comment ['c'], .white ['\n']], dbgX []])) = .error .syntax :=
  layout_rejected patNone _ _ (by decide) (by decide) (by decide)
example : parseRaw (unlex (toksOf [] [castA [.white ['\n', ' ', ' ', '\n']], dbgX []])) = .error .syntax :=
  layout_rejected patNone _ _ (by decide) (by decide) (by decide)
example : parseRaw (unlex (toksOf [] [castA [.white ['\n', '\n']], dbgX []])) =
    .ok [.skill "CAST".toList ['a'], .console ['x']] :=
  layout_irrelevant_partial _ _ (by decide) (by decide) (by decide)

/-- rejected, `trailing-tab`: `CAST "a"\t` -/
example : parseRaw (unlex (toksOf [] [castA [.white ['\t']]])) = .error .syntax :=
  layout_rejected patNone _ _ (by decide) (by decide) (by decide)

/-- the grammar is ambiguous for `x <blanks> N` + line break + operation (excluded by `xfree`/`unamb`) -/
example : parseRaw "x 3\nCAST \"a\"".toList = .error .ambiguous := by decide
/-- a multiplier that is not an integer literal: `int()` raises -/
example : parseRaw "x1.5 CAST \"a\"".toList = .error .valueError := by decide

end Simaple.Props.C14
