/-
C02, the frame hypothesis for the BUILD path, proved on programs regenerated from the source.

`schedule_independent` (Props/C02.lean) assumes `hFrame`: no step writes a cell reachable from the shared, lazily
created repository of parsed specs.  Props/C02.lean proves this for a hand-written heap model of `Spec.interpret`
and of three kinds of patch.  Here the same is proved for the code as it is: tools/py2lean/gen_effects.py lowers

* `apply(raw)` of every patch class of `simaple/spec/patch.py` and `simaple/data/jobs/patch.py`
  (with the hyper-skill / skill-improvement `modify` implementations reached through class-hierarchy analysis),
* the recursive traversal `DFSTraversePatch._apply` as a procedure (`Stmt.call`),
* `Spec.interpret` (deep copy, then the patch chain: any patch class may be next), and
* `SpecRepository.get` / `get_all`

to the effect IR of Model/Effect.lean; `wellFormedWith_frame_always` (Proofs/Effect.lean) then gives: on EVERY heap,
for EVERY spec document and patch parameters, at EVERY point of the call — inside nested and recursive calls too —
every object that existed before (the repository's stored documents, the patch objects, other engines' data) is
exactly as it was.  Not inlined and trusted not to write its arguments: `evaluate_expression` (Lark; modelled
functionally in C15), pydantic construction / `model_validate`, builtins.
-/
import Simaple.Proofs.Effect
import Simaple.Gen.Effects

namespace Simaple.Props.C02
open Simaple.Effect Simaple.Gen.Effects

/-- every patch class, `Spec.interpret` and the repository getters were lowered -/
theorem every_patch_lowered : patchesNotLowered.length = 0 := by decide

/-- the entry points through which the shared repository is read: `Spec.interpret` (which runs any chain of the
    patch classes on a deep copy) and `SpecRepository.get` / `get_all`.  The `apply` of each patch class ALONE is
    in the table too (`api = false`); whether it would also be pure on a document that is not a copy is reported in
    the evidence but is not an obligation: `interpret` copies first, so the property does not depend on it. -/
def apiEntries : List PatchEntry := patchTable.filter (·.api)

/-- the checker accepts every entry point together with its recursive procedure (kernel evaluation) -/
theorem patchTable_wellFormed :
    apiEntries.all (fun e => wellFormedWith e.taint e.nvars e.body e.prog) = true := by decide +kernel

/-- an empty table cannot pass for coverage -/
theorem patchTable_size : 3 ≤ apiEntries.length ∧ 11 ≤ patchTable.length := by decide +kernel

/-- **the build path never writes what it reads**: for every generated entry, every heap and arguments, and
    every state `σ'` passed during the call (final or not, also inside recursive calls),
    * every object allocated before the call has exactly the content it had, and
    * every store performed so far went to an object allocated during the call. -/
theorem patches_never_write_preexisting_objects (e : PatchEntry) (he : e ∈ apiEntries)
    (σ σ' : State) (hlog : σ.log = []) (hr : Reach e.body e.prog σ σ') :
    (∀ a o, σ.heap a = some o → σ'.heap a = some o) ∧ (∀ a ∈ σ'.log, σ.heap a = none) := by
  have hall := patchTable_wellFormed
  rw [List.all_eq_true] at hall
  exact wellFormedWith_frame_always e.taint e.nvars e.body e.prog (hall e he) σ σ' hlog hr

/-- in the words of `hFrame`: whatever set of cells is reachable from the shared repository, interpreting a spec
    through any chain of patches leaves every one of them unchanged -/
theorem interpretation_leaves_the_repository_unchanged (e : PatchEntry) (he : e ∈ apiEntries)
    (σ σ' : State) (hlog : σ.log = []) (hr : Reach e.body e.prog σ σ')
    (shared : Addr → Prop) (hshared : ∀ a, shared a → σ.heap a ≠ none) :
    ∀ a, shared a → σ'.heap a = σ.heap a := by
  intro a ha
  cases h : σ.heap a with
  | none => exact absurd h (hshared a ha)
  | some o => exact (patches_never_write_preexisting_objects e he σ σ' hlog hr).1 a o h

/-- non-vacuity: a recursive execution exists (the procedure allocates, recurses once, stores into its own object) -/
example : ∃ σ', Exec (.seq (.newShallow 1) (.seq (.choice .skip (.call 2)) (.store 1 0 2))) (.call 3)
    ⟨fun _ => .prim, fun _ => none, []⟩ σ' := by
  refine ⟨_, Exec.call 3 _ (fun _ => .prim) _ .prim
    (Exec.seq _ _ _ _ _ (Exec.newShallow 1 _ 5 rfl)
      (Exec.seq _ _ _ _ _ (Exec.choiceR _ _ _ _
        (Exec.call 2 _ (fun _ => .prim) _ .prim
          (Exec.seq _ _ _ _ _ (Exec.newShallow 1 _ 6 (by simp [updH]))
            (Exec.seq _ _ _ _ _ (Exec.choiceL _ _ _ _ (Exec.skip _)) (Exec.store _ _ _ _)))))
        (Exec.store _ _ _ _)))⟩

end Simaple.Props.C02
