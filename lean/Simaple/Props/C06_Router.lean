/-
C06, part: the hypothesis `hRouter` of `Simaple.Props.C06.play_clock` / `clock_is_sum` is not only observed on
real router calls — for the modelled router (installed component dispatchers of component/base.py followed by
the timer) it FOLLOWS from the dispatcher frame theorem of C08: a component dispatcher writes only its bound
addresses, so if none of them is bound to `global.time` (a static fact about the built components which the
check verifies on every run), a router call changes the clock by exactly the elapse time of its action.
-/
import Simaple.Proofs.Router

namespace Simaple.Props.C06_Router
open Simaple.Router Simaple.Dispatch Simaple.Engine

/-- for every list of installed component dispatchers (arbitrary reducers, arbitrary entities), none bound to
    `global.time`: one router call advances the clock view by exactly `elapseOf action` -/
theorem router_clock_only_timer {ε : Type} (cc : ClockCodec ε) (ds : List (CompDisp ε))
    (hb : ∀ d ∈ ds, clockAddr ∉ d.comp.boundAddrs) (a : Action) (s : Store ε) (r : Store ε × List Ev)
    (h : route cc ds a s = some r) : clockView cc r.1 = clockView cc s + elapseOf a :=
  route_clock cc ds hb a s r h

/-- no component dispatcher changes the clock entity at all -/
theorem components_leave_clock {ε : Type} (ds : List (CompDisp ε))
    (hb : ∀ d ∈ ds, clockAddr ∉ d.comp.boundAddrs) (a : Action) (s : Store ε) (r : Store ε × List Ev)
    (h : runComps ds a s = some r) : r.1.get clockAddr = s.get clockAddr :=
  runComps_clock ds hb a s r h

/-! non-vacuity: one component bound to its own cooldown and to dynamics, then the timer -/
example :
    let cc : ClockCodec Rat := ⟨id, id, fun _ => rfl⟩
    let d : CompDisp Rat := ⟨⟨"x", [("cooldown", 0)], [("dynamics", "global.dynamics")]⟩,
      fun a => if a.method = "elapse" then some ("elapse", fun st => (st.map (fun f => (f.1, f.2 - 1)), [])) else none⟩
    (clockAddr ∉ d.comp.boundAddrs) ∧
    ((route cc [d] ⟨"*", "elapse", .num 5⟩ (fun a => if a = "global.dynamics" then some 0 else none)).map
      (fun r => (clockView cc r.1, r.1.get ".x.cooldown"))) = some (5, some (-1)) := by
  decide +kernel

end Simaple.Props.C06_Router
