import Simaple.Model.All
/-! JSON-lines driver:  lake env lean --run Driver.lean < requests.jsonl -/
open Lean Simaple.J

def handlers : List (String → Json → Option (Except String Json)) := [Simaple.DrvEngine.engine, Simaple.DrvJob.job, Simaple.DrvComponent.component, Simaple.DrvComponentMage.component, Simaple.DrvComponentMech.component, Simaple.DrvComponentCommon.component, Simaple.DrvComponentWind.component, Simaple.DrvDispatch.dispatch, Simaple.Drv.core, Simaple.Drv.report, Simaple.Drv.bonus, Simaple.Drv.damageCalc, Simaple.Drv.starforce, Simaple.DrvGearParts.gearParts, Simaple.Drv.optimizer, Simaple.DrvTargets.targets, Simaple.Drv.dsl, Simaple.Drv.memo, Simaple.DrvSpec.spec, Simaple.DrvLevels.levels, Simaple.DrvEntity.entity, Simaple.Drv.sharing, Simaple.DrvEffect.effect]

def handle (line : String) : Json :=
  match Json.parse line with
  | .error e => err s!"parse: {e}"
  | .ok j =>
    match j.getObjVal? "fn" >>= Json.getStr? with
    | .error e => err e
    | .ok fn =>
      let rec go : List (String → Json → Option (Except String Json)) → Json
        | [] => err s!"unknown fn {fn}"
        | h :: hs => match h fn j with
          | some (.ok r) => ok r
          | some (.error e) => err e
          | none => go hs
      go handlers

partial def loop (h : IO.FS.Stream) (out : IO.FS.Stream) : IO Unit := do
  let line ← h.getLine
  if line.isEmpty then return ()
  if line.trimAscii.isEmpty then loop h out else
  out.putStrLn (handle line).compress
  loop h out

def main : IO Unit := do
  loop (← IO.getStdin) (← IO.getStdout)
