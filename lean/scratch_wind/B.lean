import Simaple.Proofs.ComponentWind
namespace Simaple.Comp
open Simaple.Entity
namespace BladeStorm

theorem inv_iff (s : S) : Inv s ↔ s.keydown.Inv := Iff.rfl

theorem chunk (p : P) (s : S) (a b : Int) (ha : 0 ≤ a) (hb : 0 ≤ b) (hi : Inv s) :
    (Wind.damages (elapse p (a + b) s).2).Perm
      (Wind.damages (elapse p a s).2 ++ Wind.damages (elapse p b (elapse p a s).1).2) ∧
    (elapse p b (elapse p a s).1).1 = (elapse p (a + b) s).1 := by
  have hadd := Keydown.resolving_add s.keydown a b hi ha hb
  unfold elapse
  constructor
  · rw [Wind.keydown_elapse_damages, Wind.keydown_elapse_damages, Wind.keydown_elapse_damages, Wind.keydown_elapse_fst]
    simp only []
    rw [hadd.2, ← List.replicate_append_replicate]
    have t1 := Wind.resolving_timeLeft s.keydown a
    have t2 := Wind.resolving_timeLeft (s.keydown.resolving a).1 b
    have t3 := Wind.resolving_timeLeft s.keydown (a + b)
    generalize List.replicate (s.keydown.resolving a).2 (REv.dealt (kd p).damage (kd p).hit) = R1
    generalize List.replicate ((s.keydown.resolving a).1.resolving b).2 (REv.dealt (kd p).damage (kd p).hit) = R2
    simp only [Keydown.running, t1, t2, t3]
    by_cases h0 : 0 < s.keydown.timeLeft
    · by_cases h1 : 0 < s.keydown.timeLeft - a
      · by_cases h2 : 0 < s.keydown.timeLeft - (a + b)
        · have h2' : 0 < s.keydown.timeLeft - a - b := by omega
          simp only [h0, h1, h2, h2', decide_true, decide_false, Bool.not_false, Bool.not_true, Bool.and_self, Bool.and_false,
            if_true, Bool.false_and, Bool.false_eq_true, if_false, List.append_nil, List.append_assoc]
          exact List.Perm.refl _
        · have h2' : ¬ 0 < s.keydown.timeLeft - a - b := by omega
          simp only [h0, h1, h2, h2', decide_true, decide_false, Bool.not_false, Bool.not_true, Bool.and_self, Bool.and_false,
            if_true, Bool.false_and, Bool.false_eq_true, if_false, List.append_nil, List.append_assoc]
          exact List.Perm.refl _
      · have h2 : ¬ 0 < s.keydown.timeLeft - (a + b) := by omega
        have h2' : ¬ 0 < s.keydown.timeLeft - a - b := by omega
        simp only [h0, h1, h2, h2', decide_true, decide_false, Bool.not_false, Bool.and_self, if_true, Bool.false_and,
          Bool.false_eq_true, if_false, List.append_nil, List.append_assoc]
        exact List.Perm.append_left R1 List.perm_append_comm
    · have h1 : ¬ 0 < s.keydown.timeLeft - a := by omega
      have h2 : ¬ 0 < s.keydown.timeLeft - (a + b) := by omega
      simp only [h0, h1, decide_false, Bool.false_and, Bool.false_eq_true, if_false, List.append_nil, List.append_assoc]
      exact List.Perm.refl _
  · rw [Wind.keydown_elapse_fst, Wind.keydown_elapse_fst, Wind.keydown_elapse_fst]
    simp only [Cooldown.elapse_add, hadd.1]

theorem inv_preserved (p : P) (s : S) (t : Int) (hp : 0 ≤ p.prepareDelay) (hi : Inv s) :
    Inv (elapse p t s).1 ∧ Inv (use p s).1 ∧ Inv (stop p s).1 := by
  refine ⟨?_, ?_, ?_⟩
  · unfold elapse; rw [Wind.keydown_elapse_fst]
    exact Keydown.resolving_inv s.keydown t hi
  · unfold use KeydownSkill.use
    by_cases hc : (!s.cooldown.available || s.keydown.running) = true
    · simp only [hc, if_true, rejectedIn, List.any_cons, List.any_nil, REv.isReject, Bool.or_false, Bool.not_true,
        Bool.false_eq_true, if_false]
      exact hi
    · simp only [hc, if_false, rejectedIn, List.any_cons, List.any_nil, REv.isReject, Bool.or_false, Bool.not_false, if_true]
      exact ⟨hi.1, Or.inl hp⟩
  · unfold stop KeydownSkill.stop
    split
    · exact hi
    · rename_i hr
      simp only [Bool.not_eq_true', Bool.not_eq_false, Keydown.running, decide_eq_true_eq] at hr
      refine ⟨hi.1, ?_⟩
      have := hi.2
      simp only [Keydown.stop]
      omega
end BladeStorm
end Simaple.Comp
