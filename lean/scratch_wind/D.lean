import Simaple.Proofs.ComponentWind
namespace Simaple.Comp
open Simaple.Entity
namespace Wind
theorem setTimeLeft_wf (per per' : Periodic) (T : Int) (hw : per.WF)
    (hc : ∀ c, per.initialCounter = some c → 0 < c) (h : per.setTimeLeft T = .ok per') : per'.WF := by
  unfold Periodic.setTimeLeft at h
  split at h
  · cases h
  · cases hi : per.initialCounter with
    | none => simp only [hi] at h; cases h; exact ⟨hw.1, hw.1⟩
    | some c0 =>
      simp only [hi] at h
      split at h
      · cases h
      · cases h; exact ⟨hw.1, hc c0 hi⟩
end Wind

namespace Cosmos
theorem chunk (p : P) (s : S) (a b : Int) (ha : 0 ≤ a) (hb : 0 ≤ b) (hi : Inv s) :
    Wind.damages (elapse p (a + b) s).2 =
      Wind.damages (elapse p a s).2 ++ Wind.damages (elapse p b (elapse p a s).1).2 ∧
    Equiv (elapse p b (elapse p a s).1).1 (elapse p (a + b) s).1 := by
  constructor
  · simp only [elapse, Periodic.elapse', Wind.damages_elapsed, Wind.damages_replicate_dealt]
    rw [Wind.periodic_ticks_add s.periodic a b hi ha hb, List.replicate_append_replicate]
  · simp only [elapse, Periodic.elapse']
    exact ⟨Cooldown.elapse_add _ _ _, Periodic.elapse_add' s.periodic a b hi ha hb, rfl⟩

theorem equiv_views_use (p : P) (x y : S) (h : Equiv x y) :
    validity p x = validity p y ∧ running p x = running p y ∧
    (∀ rx, use p x = .ok rx → ∃ ry, use p y = .ok ry ∧ rx.2 = ry.2 ∧ Equiv rx.1 ry.1) ∧
    (∀ e, use p x = .error e → use p y = .error e) := by
  obtain ⟨⟨c⟩, px, o⟩ := x
  obtain ⟨⟨c'⟩, py, o'⟩ := y
  obtain ⟨hc, hp, ho⟩ := h
  simp only at hc ho hp
  subst ho
  cases hc
  have hp0 : Periodic.Equiv { px with interval := p.periodicInterval - o.stack * p.periodicIntervalDecrementPerOrb }
      { py with interval := p.periodicInterval - o.stack * p.periodicIntervalDecrementPerOrb } :=
    ⟨rfl, hp.2.1, hp.2.2.1, hp.2.2.2.1, hp.2.2.2.2⟩
  have hs := hp0.setTimeLeft p.lastingDuration
  refine ⟨rfl, ?_, ?_, ?_⟩
  · simp only [running, hp.timeLeft]
  · intro rx hrx
    unfold use at hrx ⊢
    by_cases hcnd : (!(Cooldown.mk c).available || o.stack == 0) = true
    · simp only [hcnd, if_true] at hrx ⊢
      cases hrx
      exact ⟨_, rfl, rfl, rfl, hp, rfl⟩
    · simp only [hcnd, if_false] at hrx ⊢
      simp only [Bool.false_eq_true, if_false] at hrx ⊢
      rw [← hs]
      cases hq : Periodic.setTimeLeft { px with interval := p.periodicInterval - o.stack * p.periodicIntervalDecrementPerOrb }
          p.lastingDuration with
      | error e => simp [hq] at hrx
      | ok per =>
        simp only [hq] at hrx ⊢
        cases hrx
        exact ⟨_, rfl, rfl, rfl, Periodic.Equiv.refl _, rfl⟩
  · intro e he
    unfold use at he ⊢
    by_cases hcnd : (!(Cooldown.mk c).available || o.stack == 0) = true
    · simp only [hcnd, if_true] at he; cases he
    · simp only [hcnd, if_false, Bool.false_eq_true] at he ⊢
      rw [← hs]; exact he

theorem equiv_elapse (p : P) (x y : S) (t : Int) (h : Equiv x y) :
    (elapse p t x).2 = (elapse p t y).2 ∧ Equiv (elapse p t x).1 (elapse p t y).1 := by
  obtain ⟨hc, hp, ho⟩ := h
  constructor
  · simp only [elapse, Periodic.elapse', hp.elapseCount t]
  · exact ⟨by simp only [elapse, hc], Periodic.elapse_equiv _ _ t hp, ho⟩

theorem inv_preserved (p : P) (s : S) (t : Int) (hi : Inv s)
    (hc : ∀ c, s.periodic.initialCounter = some c → 0 < c)
    (hpos : 0 < p.periodicInterval - s.orb.stack * p.periodicIntervalDecrementPerOrb) :
    Inv (elapse p t s).1 ∧ ∀ r, use p s = .ok r → Inv r.1 := by
  constructor
  · exact Periodic.elapse_wf _ _ hi
  · intro r hr
    unfold use at hr
    split at hr
    · cases hr; exact hi
    · simp only at hr
      split at hr
      · cases hr
      · rename_i per hper
        cases hr
        exact Wind.setTimeLeft_wf { s.periodic with interval := p.periodicInterval - s.orb.stack * p.periodicIntervalDecrementPerOrb } per _ ⟨hpos, hi.2⟩ hc hper
end Cosmos

namespace HowlingGale
theorem rowOf_congr (p : P) (x y : S) (h : x.consumed = y.consumed) : rowOf p x = rowOf p y := by
  unfold rowOf; rw [h]

theorem pyIndex_some {α : Type} (xs : List α) (i : Int) (h0 : 0 ≤ i) (h1 : i < xs.length) : ∃ v, Wind.pyIndex xs i = some v := by
  unfold Wind.pyIndex
  rw [if_pos h0]
  have : i.toNat < xs.length := by omega
  exact ⟨xs[i.toNat], by simp [this]⟩

theorem elapse_defined (p : P) (s : S) (t : Int) (hi : Inv p s) : ∃ r, elapse p t s = .ok r := by
  obtain ⟨hw, _, hlen, hpos, hidx⟩ := hi
  unfold elapse
  simp only []
  by_cases h0 : (s.periodic.elapse' t).2.toNat = 0
  · rw [if_pos h0]; exact ⟨_, rfl⟩
  · rw [if_neg h0]
    have hen : 0 < s.periodic.timeLeft := by
      by_cases he : s.periodic.timeLeft ≤ 0
      · have := Wind.periodic_expired_count s.periodic t he
        have e2 : (s.periodic.elapse' t).2 = s.periodic.elapseCount t := rfl
        rw [e2, this] at h0; simp at h0
      · omega
    have hc := hidx hen
    obtain ⟨ds, hds⟩ := pyIndex_some p.periodicDamage (s.consumed.getValue - 1) (by simp [Integer.getValue]; omega)
      (by simp [Integer.getValue]; omega)
    obtain ⟨hs, hhs⟩ := pyIndex_some p.periodicHit (s.consumed.getValue - 1) (by simp [Integer.getValue]; omega)
      (by simp [Integer.getValue]; omega)
    rw [hds, hhs]; exact ⟨_, rfl⟩

theorem chunk (p : P) (s : S) (a b : Int) (ha : 0 ≤ a) (hb : 0 ≤ b)
    (hi : Inv p s) (r1 r2 r : S × List REv)
    (h1 : elapse p a s = .ok r1) (h2 : elapse p b r1.1 = .ok r2) (h : elapse p (a + b) s = .ok r) :
    Wind.damages r.2 = Wind.damages r1.2 ++ Wind.damages r2.2 ∧ Equiv r2.1 r.1 ∧
    validity p r2.1 = validity p r.1 ∧ running p r2.1 = running p r.1 := by
  have f1 := elapse_ok_form p a s r1 h1
  subst f1
  have f2 := elapse_ok_form p b _ r2 h2
  subst f2
  have f := elapse_ok_form p (a + b) s r h
  subst f
  have hrow : rowOf p (after a s) = rowOf p s := rowOf_congr p _ _ rfl
  have hcons := Consumable.elapse_add s.consumable a b hi.2.1 ha hb
  have hper := Periodic.elapse_add' s.periodic a b hi.1 ha hb
  refine ⟨?_, ⟨?_, rfl, ?_⟩, ?_, ?_⟩
  · simp only [Wind.damages_elapsed, hrow, damages_rows]
    have : (after a s).periodic = s.periodic.elapse a := rfl
    rw [this, Wind.periodic_ticks_add s.periodic a b hi.1 ha hb, rows_add]
  · exact hcons
  · exact hper
  · simp only [validity, after, hcons]
  · simp only [running, after, hper.timeLeft]

theorem equiv_indistinguishable (p : P) (x y : S) (t : Int) (h : Equiv x y) :
    validity p x = validity p y ∧ running p x = running p y ∧
    (∀ rx, use p x = .ok rx → ∃ ry, use p y = .ok ry ∧ rx.2 = ry.2 ∧ Equiv rx.1 ry.1) ∧
    (∀ e, use p x = .error e → use p y = .error e) ∧
    (∀ rx ry, elapse p t x = .ok rx → elapse p t y = .ok ry → rx.2 = ry.2 ∧ Equiv rx.1 ry.1) := by
  obtain ⟨cx, nx, px⟩ := x
  obtain ⟨cy, ny, py⟩ := y
  obtain ⟨hc, hn, hp⟩ := h
  simp only at hc hn hp
  subst hc; subst hn
  have hs := hp.setTimeLeft (lasting p)
  refine ⟨rfl, ?_, ?_, ?_, ?_⟩
  · simp only [running, hp.timeLeft]
  · intro rx hrx
    unfold use at hrx ⊢
    by_cases hcnd : (!cx.available) = true
    · simp only [hcnd, if_true] at hrx ⊢
      cases hrx
      exact ⟨_, rfl, rfl, rfl, rfl, hp⟩
    · simp only [hcnd, if_false] at hrx ⊢
      simp only [Bool.false_eq_true, if_false] at hrx ⊢
      rw [← hs]
      cases hq : px.setTimeLeft (lasting p) with
      | error e => simp [hq] at hrx
      | ok per =>
        simp only [hq] at hrx ⊢
        cases hrx
        exact ⟨_, rfl, rfl, rfl, rfl, Periodic.Equiv.refl _⟩
  · intro e he
    unfold use at he ⊢
    by_cases hcnd : (!cx.available) = true
    · simp only [hcnd, if_true] at he; cases he
    · simp only [hcnd, if_false, Bool.false_eq_true] at he ⊢
      rw [← hs]; exact he
  · intro rx ry hx hy
    have fx := elapse_ok_form p t _ rx hx
    have fy := elapse_ok_form p t _ ry hy
    subst fx; subst fy
    have hrow : rowOf p ⟨cx, nx, px⟩ = rowOf p ⟨cx, nx, py⟩ := rowOf_congr p _ _ rfl
    refine ⟨?_, rfl, rfl, Periodic.elapse_equiv _ _ t hp⟩
    simp only [hrow, hp.elapseCount t]

theorem inv_preserved (p : P) (s : S) (t : Int) (hi : Inv p s)
    (hc : ∀ c, s.periodic.initialCounter = some c → 0 < c) :
    (∀ r, elapse p t s = .ok r → Inv p r.1) ∧ (∀ r, use p s = .ok r → Inv p r.1) := by
  obtain ⟨hw, hcw, hlen, hpos, hidx⟩ := hi
  constructor
  · intro r hr
    have f := elapse_ok_form p t s r hr
    subst f
    refine ⟨Periodic.elapse_wf _ _ hw, Consumable.elapse_wf _ _ hcw, hlen, hpos, ?_⟩
    intro hen
    exact hidx (Wind.periodic_enabled_after s.periodic t hen)
  · intro r hr
    unfold use at hr
    by_cases hcnd : (!s.consumable.available) = true
    · simp only [hcnd, if_true] at hr
      cases hr
      exact ⟨hw, hcw, hlen, hpos, hidx⟩
    · simp only [hcnd, if_false, Bool.false_eq_true] at hr
      cases hq : s.periodic.setTimeLeft (lasting p) with
      | error e => simp [hq] at hr
      | ok per =>
        simp only [hq] at hr
        cases hr
        refine ⟨Wind.setTimeLeft_wf _ _ _ hw hc hq, hcw, hlen, hpos, ?_⟩
        intro _
        simp only [Bool.not_eq_true, Bool.not_eq_false', Consumable.available, decide_eq_true_eq] at hcnd
        simp only [Integer.setValue, Consumable.getStack]
        omega
end HowlingGale
end Simaple.Comp
