import Simaple.Proofs.ComponentWind
namespace Simaple.Comp
open Simaple.Entity
namespace KarmaBlade
/-- closed form of `elapse` -/
theorem elapse_form (p : P) (t : Int) (c k m d T : Int) :
    elapse p t ⟨⟨c⟩, ⟨k, m, d, T⟩⟩ =
      if 0 < T ∧ T - t ≤ 0 then (⟨⟨c - t⟩, ⟨0, m, d, 0⟩⟩, [.dealt p.finishDamage p.finishHit])
      else if T - t < 0 then (⟨⟨c - t⟩, ⟨0, m, d, 0⟩⟩, [])
      else (⟨⟨c - t⟩, ⟨k, m, d, T - t⟩⟩, []) := by
  by_cases h1 : 0 < T
  · by_cases h2 : T - t < 0
    · have h3 : T - t ≤ 0 := by omega
      simp only [elapse, LastingStack.enabled, LastingStack.elapse, LastingStack.reset, Cooldown.elapse, h1, h2, h3,
        decide_true, if_true, Int.lt_irrefl, decide_false, Bool.not_false, Bool.and_self, and_self]
    · by_cases h3 : T - t ≤ 0
      · have h4 : ¬ 0 < T - t := by omega
        simp only [elapse, LastingStack.enabled, LastingStack.elapse, LastingStack.reset, Cooldown.elapse, h1, h2, h3, h4,
          decide_true, if_true, if_false, decide_false, Bool.not_false, Bool.and_self, and_self]
      · have h4 : 0 < T - t := by omega
        simp only [elapse, LastingStack.enabled, LastingStack.elapse, LastingStack.reset, Cooldown.elapse, h1, h2, h3, h4,
          decide_true, if_true, if_false, decide_false, Bool.not_true, Bool.and_false, and_false, Bool.false_eq_true]
  · by_cases h2 : T - t < 0
    · simp only [elapse, LastingStack.enabled, LastingStack.elapse, LastingStack.reset, Cooldown.elapse, h1, h2,
        decide_true, if_true, if_false, decide_false, Bool.false_and, false_and, Bool.false_eq_true]
    · simp only [elapse, LastingStack.enabled, LastingStack.elapse, LastingStack.reset, Cooldown.elapse, h1, h2,
        decide_true, if_true, if_false, decide_false, Bool.false_and, false_and, Bool.false_eq_true]

theorem chunk (p : P) (s : S) (a b : Int) (ha : 0 ≤ a) (hb : 0 ≤ b) :
    Wind.damages (elapse p (a + b) s).2 = Wind.damages (elapse p a s).2 ++ Wind.damages (elapse p b (elapse p a s).1).2 ∧
    (elapse p b (elapse p a s).1).1 = (elapse p (a + b) s).1 := by
  obtain ⟨⟨c⟩, ⟨k, m, d, T⟩⟩ := s
  have e : c - a - b = c - (a + b) := by omega
  have e2 : T - a - b = T - (a + b) := by omega
  rw [elapse_form p a, elapse_form p (a + b)]
  by_cases h1 : 0 < T ∧ T - a ≤ 0
  · have h2 : 0 < T ∧ T - (a + b) ≤ 0 := ⟨h1.1, by omega⟩
    rw [if_pos h1, if_pos h2]
    simp only []
    rw [elapse_form p b]
    rw [if_neg (by omega), e]
    by_cases h3 : (0:Int) - b < 0
    · rw [if_pos h3]; exact ⟨rfl, rfl⟩
    · rw [if_neg h3]
      have : b = 0 := by omega
      subst this
      exact ⟨rfl, rfl⟩
  · rw [if_neg h1]
    by_cases h2 : T - a < 0
    · rw [if_pos h2]
      have h3 : ¬ (0 < T ∧ T - (a + b) ≤ 0) := by omega
      rw [if_neg h3, if_pos (by omega)]
      simp only []
      rw [elapse_form p b, if_neg (by omega), e]
      by_cases h4 : (0:Int) - b < 0
      · rw [if_pos h4]; exact ⟨rfl, rfl⟩
      · rw [if_neg h4]
        have : b = 0 := by omega
        subst this
        exact ⟨rfl, rfl⟩
    · rw [if_neg h2]
      simp only []
      rw [elapse_form p b, e, e2]
      by_cases h3 : 0 < T ∧ T - (a + b) ≤ 0
      · have h4 : 0 < T - a ∧ T - (a + b) ≤ 0 := by omega
        rw [if_pos h3, if_pos h4]; exact ⟨rfl, rfl⟩
      · have h4 : ¬ (0 < T - a ∧ T - (a + b) ≤ 0) := by omega
        rw [if_neg h3, if_neg h4]
        by_cases h5 : T - (a + b) < 0
        · rw [if_pos h5]; exact ⟨rfl, rfl⟩
        · rw [if_neg h5]; exact ⟨rfl, rfl⟩
end KarmaBlade
end Simaple.Comp
