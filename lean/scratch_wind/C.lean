import Simaple.Proofs.ComponentWind
namespace Simaple.Comp
open Simaple.Entity
namespace CosmicShower

theorem chunk (p : P) (s : S) (a b : Int) (ha : 0 ≤ a) (hb : 0 ≤ b) (hi : Inv s) :
    Wind.damages (elapse p (a + b) s).2 =
      Wind.damages (elapse p a s).2 ++ Wind.damages (elapse p b (elapse p a s).1).2 ∧
    Equiv (elapse p b (elapse p a s).1).1 (elapse p (a + b) s).1 := by
  constructor
  · simp only [elapse, Periodic.elapse', Wind.damages_elapsed, Wind.damages_replicate_dealt]
    rw [Wind.periodic_ticks_add s.periodic a b hi ha hb, List.replicate_append_replicate]
  · simp only [elapse, Periodic.elapse']
    exact ⟨Cooldown.elapse_add _ _ _, Periodic.elapse_add' s.periodic a b hi ha hb, rfl⟩

theorem equiv_views_use (p : P) (x y : S) (h : Equiv x y) :
    validity p x = validity p y ∧ running p x = running p y ∧
    (∀ rx, use p x = .ok rx → ∃ ry, use p y = .ok ry ∧ rx.2 = ry.2 ∧ Equiv rx.1 ry.1) ∧
    (∀ e, use p x = .error e → use p y = .error e) := by
  obtain ⟨⟨c⟩, px, o⟩ := x
  obtain ⟨⟨c'⟩, py, o'⟩ := y
  obtain ⟨hc, hp, ho⟩ := h
  simp only at hc ho hp
  subst ho
  cases hc
  have hs := hp.setTimeLeft (p.lastingDuration + o.stack * p.durationIncreasePerOrb)
  refine ⟨rfl, ?_, ?_, ?_⟩
  · simp only [running, hp.timeLeft]
  · intro rx hrx
    unfold use at hrx ⊢
    by_cases hcnd : (!(Cooldown.mk c).available || o.stack == 0) = true
    · simp only [hcnd, if_true] at hrx ⊢
      cases hrx
      exact ⟨_, rfl, rfl, rfl, hp, rfl⟩
    · simp only [hcnd, if_false] at hrx ⊢
      simp only [Bool.false_eq_true, if_false] at hrx ⊢
      rw [← hs]
      cases hq : px.setTimeLeft (p.lastingDuration + o.stack * p.durationIncreasePerOrb) with
      | error e => simp [hq] at hrx
      | ok per =>
        simp only [hq] at hrx ⊢
        cases hrx
        exact ⟨_, rfl, rfl, rfl, Periodic.Equiv.refl _, rfl⟩
  · intro e he
    unfold use at he ⊢
    by_cases hcnd : (!(Cooldown.mk c).available || o.stack == 0) = true
    · simp only [hcnd, if_true] at he; cases he
    · simp only [hcnd, if_false, Bool.false_eq_true] at he ⊢
      rw [← hs]; exact he

theorem equiv_elapse (p : P) (x y : S) (t : Int) (h : Equiv x y) :
    (elapse p t x).2 = (elapse p t y).2 ∧ Equiv (elapse p t x).1 (elapse p t y).1 := by
  obtain ⟨hc, hp, ho⟩ := h
  constructor
  · simp only [elapse, Periodic.elapse', hp.elapseCount t]
  · exact ⟨by simp only [elapse, hc], Periodic.elapse_equiv _ _ t hp, ho⟩

theorem setTimeLeft_wf (per per' : Periodic) (T : Int) (hw : per.WF)
    (hc : ∀ c, per.initialCounter = some c → 0 < c) (h : per.setTimeLeft T = .ok per') : per'.WF := by
  unfold Periodic.setTimeLeft at h
  split at h
  · cases h
  · cases hi : per.initialCounter with
    | none => simp only [hi] at h; cases h; exact ⟨hw.1, hw.1⟩
    | some c0 =>
      simp only [hi] at h
      split at h
      · cases h
      · cases h; exact ⟨hw.1, hc c0 hi⟩

theorem inv_preserved (p : P) (s : S) (t : Int) (hi : Inv s)
    (hc : ∀ c, s.periodic.initialCounter = some c → 0 < c) :
    Inv (elapse p t s).1 ∧ ∀ r, use p s = .ok r → Inv r.1 := by
  constructor
  · exact Periodic.elapse_wf _ _ hi
  · intro r hr
    unfold use at hr
    split at hr
    · cases hr; exact hi
    · simp only at hr
      split at hr
      · cases hr
      · rename_i per hper
        cases hr
        exact setTimeLeft_wf _ _ _ hi hc hper
end CosmicShower
end Simaple.Comp
