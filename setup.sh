#!/bin/bash
# MANIFEST.setup_cmd: regenerate the generated Lean sources from /repo and build the whole Lean project.
set -e
cd "$(dirname "$0")"
/venv/bin/python harness/regen_all.py
cd lean
lake build Simaple Simaple.Model.All 2>&1 | tail -5
