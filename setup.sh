#!/bin/bash
# MANIFEST.setup_cmd: regenerate the generated Lean sources from /repo and build the Lean project
# (every check rebuilds what it needs anyway; this only warms the build cache, so a module that
# fails here is reported by its own check, not by setup).
cd "$(dirname "$0")"
/venv/bin/python harness/regen_all.py || echo "setup: a generator refused the source (the checks will report it)"
cd lean
mods=$(/venv/bin/python -c 'import json; m = json.load(open("../MANIFEST.json")); print(" ".join("Simaple.Props." + c["property_id"] for c in m["checks"]))')
lake build Simaple.Model.All 2>&1 | tail -3
for m in $mods; do
  lake build "$m" 2>&1 | tail -1
done
exit 0
